"""Regenerate MANIFEST.json from the table below (keeps it schema-valid)."""
import json, os
HERE = os.path.dirname(os.path.dirname(os.path.abspath(__file__)))
CHECKS = {
 "C01": ("exploration", "H-write/H-pipe wrappers + stdlib compile/ast oracle over every write event", "5 C01"),
 "C02": ("exploration", "H-pipe before/after text + symtable/ast scope oracle (unresolved-name inclusion)", "5 C02"),
 "C03": ("exploration", "codemod-boundary tree snapshots + strict unified-diff applier over recorded per-codemod histories", "5 C03"),
 "C04": ("exploration", "sys.addaudithook file-system mutation log + tree snapshots + dry/real report differential", "5 C04"),
 "C05": ("exploration", "tree snapshots of target and sibling trees + audit-hook log vs reference glob matcher", "5 C05"),
 "C06": ("exploration", "sentinel-delimited site regions + CodeTF change/finding attribution over all 2^n finding subsets", "5 C06"),
 "C07": ("exploration", "second run over first run's output: write-event counter + tree diff + report changesets", "5 C07"),
 "C08": ("translation_validation", "differential execution of original vs rewritten generated programs in child interpreters", "5 C08"),
 "C09": ("exploration", "batch run vs chain of single runs: tree and per-codemod result equality, semgrep-invocation trace", "5 C09"),
 "C10": ("fault_enumeration", "fault injection at per-file hook + sys.monitoring failpoints, differential against fault-free run", "5 C10"),
 "C11": ("exploration", "in-flight counter at per-file hook under seeded delay schedules, worker counts, hash seeds; output equality", "5 C11"),
 "C12": ("exploration", "post-condition monitors on ResultSet algebra/readers vs multiset-union reference model + end-to-end split files", "5 C12"),
 "C13": ("exploration", "per-site text before/after under line include/exclude subsets + CodeTF lineNumber comparison", "5 C13"),
 "C14": ("exploration", "manifest write hook + independent re-parsers (packaging/tomllib/configparser/ast) before/after", "5 C14"),
 "C15": ("exploration", "vendored CodeTF JSON-Schema + structural invariants of the report against tree and executed-codemod trace", "5 C15"),
 "C16": ("exploration", "AST token-multiset delta of each rewritten file vs per-codemod documented vocabulary", "5 C16"),
 "C17": ("exploration", "executed-codemod sequence from codemod-boundary hook vs reference selection model", "5 C17"),
 "C18": ("exploration", "detector output (semgrep call hook, findings lines) vs rewrite/failed outcome + second detector pass", "5 C18"),
 "C19": ("exploration", "plug-in codemods on regex/XML pipelines: per-line reference model + expat infoset comparison + diff applier", "5 C19"),
 "C20": ("exploration", "black-box exit status of the console script over an argv/env/output-path grammar vs status table", "5 C20"),
}
WHAT = {
 "C01": "every write event (and every final file) of real runs over all 101 codemods x corpus seeds x contexts (def/async/method/nested/twice/local-decoy) x import styles (alias/from/second-use/mixed) x byte and call layouts (CRLF/BOM/tabs/exploded/hanging/trailing comma/semicolon/keywords reversed) + generated program families is compiled with the stdlib; SAST codemods run with their tool result files",
 "C02": "same executions as C01; the stdlib symtable/ast unresolved-name set after each rewrite must be contained in the one before (flow-insensitive, so it cannot call a conditionally bound name unresolved)",
 "C03": "tree snapshots at every codemod boundary of single-codemod runs, codemod sequences on shared files, manifest-is-source sequences, every manifest kind x encoding x line terminator, and heterogeneous projects under 4 workers with delay/yield injection; each reported diff is applied by an independent strict patcher",
 "C04": "dry/real pairs for every pixee codemod x manifest kind x layout, dependency-adding codemods x every manifest, SAST codemods; sys.addaudithook mutation log + content and (mode, mtime, size) snapshots; console-script dry runs under strace -f",
 "C05": "random trees (default-excluded directory names, dot-directories, symlinked files/dirs into a sibling tree, non-Python files) x random include/exclude lists (literals, *, ?, [..], :line, repeated globs) in find-and-fix and SAST mode; changed set vs an independent glob reference; sibling tree and audit log for outside writes",
 "C06": "each SAST codemod with its seed body replicated at 3 indentations between statement sentinels and all 2^3 finding subsets + foreign-rule/foreign-file/closed decoys; two sites on one line; re-laid-out multi-line / non-ASCII sources with recomputed Semgrep regions; change entries must carry exactly the site's findings",
 "C07": "the C01 grid run twice: second run must write nothing (write-hook counter), change no byte and report no changeset",
 "C08": "generated closed programs per refactoring codemod (boolean templates, comparison operators/chains/bool literals, comprehension consumers, walrus scopes, logging formats, abc, file/lock with, alias chains, imports, multi-piece sqlite queries, nested sites) executed before and after the rewrite in child interpreters",
 "C09": "batch run vs chain of single-codemod runs (tree + per-codemod results) over curated interacting sequences, mover x semgrep-detected pairs on a shared file, manifest-is-source and same-package sequences, random sequences",
 "C10": "5 pipeline kinds x n files x fault kind (undecodable bytes off/on/inside the site's line, NUL, syntax error, latin-1 cookie, empty, deleted before detector / before work item, transformer raising at entry, failpoint at every j-th repository function entered in transform) x position; differential against the fault-free run, per-codemod attribution, per-finding unfixed count",
 "C11": "groups of real CLI processes of one (project, argv) under worker counts {1,2,4,16}, seeded per-file delays, PYTHONHASHSEED {0..4,random}, file creation orders (thorough: LINE-event yield injection, switch interval 1e-6); projects with repeated base names and mixed layouts; in-flight counter at the per-file hook; aggregates mutated only by the coordinating thread; sibling-independence probes",
 "C12": "post-condition wrappers on ResultSet.__or__/add_result; (a) |/|= folds of reader-built sets vs multiset union, (b) generated Sonar/Semgrep/CodeQL/DefectDojo documents vs reference extraction, (c) detector combination functions over every file order, (d) CLI runs with findings split over 2-3 files in every order and mixed-tool SARIF files with a hook on the routing step",
 "C13": "codemods whose seed edit is one line replaced by one line: 3 copies between sentinels at module level / in def / method / if-block; diagnostic cases + subsets of site lines excluded or included in relative, glob and absolute spellings x 6 spellings of the target directory; change-entry line numbers",
 "C14": "generated manifests in 4 formats (comments, markers, extras, -r, inline/multi-line, poetry tables with type checkers and stubs, CRLF, no final newline, already-declared spellings) x dependency-adding codemods (single and several per run), run twice; independent re-parse; declared requirements compared by value",
 "C15": "mixed runs (multi-codemod, failures, injected write errors, dependency changes, non-ASCII, SAST tools, zero codemods/files, dry-run) validated against a vendored CodeTF JSON-Schema and structural invariants vs tree and executed-codemod trace",
 "C16": "22 hardening codemods x seeds x contexts x call shapes (extra keyword, *args, **kw, nested call, keyword-first, trailing comma, exploded, mixed import bindings) with an unrelated marker call; token-multiset delta within the documented vocabulary; argument identity order",
 "C17": "include/exclude lists over real ids, unknown ids and * patterns (prefix/suffix/infix/star-matches-empty/head-tail-overlap/two stars/metacharacters) x every way of supplying SAST inputs; executed order from the codemod-boundary hook vs an independent reference",
 "C18": "22 semgrep-detected codemods x grid variants (+ hanging layouts and non-ASCII text before / inside the flagged construct), 50 files per project; own-semgrep-call hook gives flagged locations; flagged => rewritten or failed unless structurally declined; second pass locations vs rewritten statements",
 "C19": "harness-defined plug-in codemods on the public regex / SAST-regex / XML / SAST-XML pipelines through run(): per-line re.sub reference, expat infoset comparison, strict diff applier, findings per line/element, dry-run",
 "C20": "black-box console script over an enumerated table and random compositions of option groups x error conditions x AI-client environments x unwritable outputs x byte-named paths, plus a sample of the whole grid that must complete with status 0",
}
TEXT = "Runtime monitoring of real codemodder runs: held on the executions this run produced (evidence lists codemods/contexts/layouts/schedules/fault points covered); says nothing about inputs the generators do not produce."
def main():
    checks = []
    for pid, (level, tech, ref) in CHECKS.items():
        checks.append({"property_id": pid, "quick_cmd": f"/venv/bin/python -m vf.check {pid} --tier quick", "thorough_cmd": f"/venv/bin/python -m vf.check {pid} --tier thorough",
                       "evidence_file": f"evidence/{pid}.json", "replay_cmd_template": "/venv/bin/python -m vf.replay {path}", "engine": "vf",
                       "level_claimed": {"category": level, "text": WHAT[pid] + ". " + TEXT, "design_ref": "DESIGN.md section " + ref},
                       "level_note": "trusted base: CPython stdlib oracles (ast, symtable, compile, difflib, expat, tomllib, configparser), packaging, jsonschema; harness wrappers installed from outside the repository; seed corpus = inputs of tests/codemods",
                       "technique": tech})
    m = {"version": 1, "setup_cmd": "/venv/bin/python -m vf.setup",
         "hooks": {"guard": "CODEMODDER_VERIF", "enable": "no source hooks: every monitor is installed from the harness process (wrappers, sys.addaudithook, sys.monitoring, strace); the guard variable is unused by the repository",
                   "baseline_off_cmd": "cd /repo && /venv/bin/python -m pytest -ra -q -p no:cacheprovider --timeout=900 --continue-on-collection-errors", "source_commits": [], "add_only": True},
         "engines": [{"name": "vf", "path": "vf/", "serves_properties": sorted(CHECKS), "kind_free_text": "runtime-monitoring harness: worker pool driving codemodder.codemodder.run / the console script under monitors, with independent oracles"}],
         "checks": checks, "not_applicable": [],
         "notes": "All twenty properties are decided by runtime monitoring (see DESIGN.md). Known genuine defects are listed in KNOWN_FINDINGS.txt; repaired ones as 'fixed:' entries."}
    json.dump(m, open(os.path.join(HERE, "MANIFEST.json"), "w"), indent=1)
if __name__ == "__main__": main()
