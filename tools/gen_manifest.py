"""Regenerate MANIFEST.json from the table below (keeps it schema-valid)."""
import json, os
HERE = os.path.dirname(os.path.dirname(os.path.abspath(__file__)))
CHECKS = {
 "C01": ("exploration", "H-write/H-pipe wrappers + stdlib compile/ast oracle over every write event", "5 C01"),
 "C02": ("exploration", "H-pipe before/after text + symtable/ast scope oracle (unresolved-name inclusion)", "5 C02"),
 "C03": ("exploration", "codemod-boundary tree snapshots + strict unified-diff applier over recorded per-codemod histories", "5 C03"),
 "C04": ("exploration", "sys.addaudithook file-system mutation log + tree snapshots + dry/real report differential", "5 C04"),
 "C05": ("exploration", "tree snapshots of target and sibling trees + audit-hook log vs reference glob matcher", "5 C05"),
 "C06": ("exploration", "sentinel-delimited site regions + CodeTF change/finding attribution over all 2^n finding subsets", "5 C06"),
 "C07": ("exploration", "second run over first run's output: write-event counter + tree diff + report changesets", "5 C07"),
 "C08": ("translation_validation", "differential execution of original vs rewritten generated programs in child interpreters", "5 C08"),
 "C09": ("exploration", "batch run vs chain of single runs: tree and per-codemod result equality, semgrep-invocation trace", "5 C09"),
 "C10": ("fault_enumeration", "fault injection at per-file hook + sys.monitoring failpoints, differential against fault-free run", "5 C10"),
 "C11": ("exploration", "in-flight counter at per-file hook under seeded delay schedules, worker counts, hash seeds; output equality", "5 C11"),
 "C12": ("exploration", "post-condition monitors on ResultSet algebra/readers vs multiset-union reference model + end-to-end split files", "5 C12"),
 "C13": ("exploration", "per-site text before/after under line include/exclude subsets + CodeTF lineNumber comparison", "5 C13"),
 "C14": ("exploration", "manifest write hook + independent re-parsers (packaging/tomllib/configparser/ast) before/after", "5 C14"),
 "C15": ("exploration", "vendored CodeTF JSON-Schema + structural invariants of the report against tree and executed-codemod trace", "5 C15"),
 "C16": ("exploration", "AST token-multiset delta of each rewritten file vs per-codemod documented vocabulary", "5 C16"),
 "C17": ("exploration", "executed-codemod sequence from codemod-boundary hook vs reference selection model", "5 C17"),
 "C18": ("exploration", "detector output (semgrep call hook, findings lines) vs rewrite/failed outcome + second detector pass", "5 C18"),
 "C19": ("exploration", "plug-in codemods on regex/XML pipelines: per-line reference model + expat infoset comparison + diff applier", "5 C19"),
 "C20": ("exploration", "black-box exit status of the console script over an argv/env/output-path grammar vs status table", "5 C20"),
}
TEXT = "Runtime monitoring of real codemodder runs: held on the executions this run produced (evidence lists codemods/contexts/layouts/schedules/fault points covered); says nothing about inputs the generators do not produce."
def main():
    checks = []
    for pid, (level, tech, ref) in CHECKS.items():
        checks.append({"property_id": pid, "quick_cmd": f"/venv/bin/python -m vf.check {pid} --tier quick", "thorough_cmd": f"/venv/bin/python -m vf.check {pid} --tier thorough",
                       "evidence_file": f"evidence/{pid}.json", "replay_cmd_template": "/venv/bin/python -m vf.replay {path}", "engine": "vf",
                       "level_claimed": {"category": level, "text": TEXT, "design_ref": "DESIGN.md section " + ref},
                       "level_note": "trusted base: CPython stdlib oracles (ast, symtable, compile, difflib, expat, tomllib, configparser), packaging, jsonschema; harness wrappers installed from outside the repository; seed corpus = inputs of tests/codemods",
                       "technique": tech})
    m = {"version": 1, "setup_cmd": "/venv/bin/python -m vf.setup",
         "hooks": {"guard": "CODEMODDER_VERIF", "enable": "no source hooks: every monitor is installed from the harness process (wrappers, sys.addaudithook, sys.monitoring, strace); the guard variable is unused by the repository",
                   "baseline_off_cmd": "cd /repo && /venv/bin/python -m pytest -ra -q -p no:cacheprovider --timeout=900 --continue-on-collection-errors", "source_commits": [], "add_only": True},
         "engines": [{"name": "vf", "path": "vf/", "serves_properties": sorted(CHECKS), "kind_free_text": "runtime-monitoring harness: worker pool driving codemodder.codemodder.run / the console script under monitors, with independent oracles"}],
         "checks": checks, "not_applicable": [],
         "notes": "All twenty properties are decided by runtime monitoring (see DESIGN.md). Known genuine defects are listed in KNOWN_FINDINGS.txt; repaired ones as 'fixed:' entries."}
    json.dump(m, open(os.path.join(HERE, "MANIFEST.json"), "w"), indent=1)
if __name__ == "__main__": main()
