"""Self-validation: apply each mutant of mutants/specs.py to a scratch copy of /repo/src (outside /repo and /verif), run the named
checks' quick tier against it and record whether a NEW violation key appeared.

  /venv/bin/python tools/run_mutants.py [--only <substring>] [--baseline]      (results -> mutants/results.json)

--baseline also runs the repository's baseline tests on the mutated copy (a mutant that breaks them is not "a change the tests miss")."""
import json, os, shutil, subprocess, sys, tempfile, time
HERE = os.path.dirname(os.path.dirname(os.path.abspath(__file__)))
sys.path.insert(0, HERE)
from mutants.specs import M, BENIGN

def main():
    only = sys.argv[sys.argv.index("--only") + 1] if "--only" in sys.argv else None
    resf = os.path.join(HERE, "mutants", "results.json")
    results = json.load(open(resf)) if os.path.exists(resf) else {}
    work = tempfile.mkdtemp(prefix="vf_mut_")
    try:
        for mu in M:
            if only and only not in mu["id"]: continue
            root = os.path.join(work, "repo"); src = os.path.join(root, "src")
            shutil.rmtree(root, ignore_errors=True)
            shutil.copytree("/repo/src", src, ignore=shutil.ignore_patterns("__pycache__", "*.pyc"))
            p = os.path.join(src, mu["file"]); text = open(p, encoding="utf-8").read()
            if text.count(mu["old"]) != mu.get("count", 1):
                results[mu["id"]] = {"status": "does-not-apply", "occurrences": text.count(mu["old"])}; print(mu["id"], "DOES NOT APPLY", text.count(mu["old"])); continue
            open(p, "w", encoding="utf-8").write(text.replace(mu["old"], mu["new"]))
            r = subprocess.run(["/venv/bin/python", "-c", "import codemodder.codemodder, core_codemods"], env=dict(os.environ, PYTHONPATH=src), capture_output=True, text=True)
            if r.returncode != 0:
                results[mu["id"]] = {"status": "does-not-import", "error": r.stderr[-300:]}; print(mu["id"], "DOES NOT IMPORT"); continue
            entry = {"status": "ok", "checks": {}, "at": time.strftime("%Y-%m-%dT%H:%M:%S")}
            if "--baseline" in sys.argv:
                shutil.copytree("/repo/tests", os.path.join(root, "tests")); shutil.copy("/repo/pyproject.toml", root)
                b = subprocess.run(["/venv/bin/python", os.path.join(HERE, "tools", "baseline_check.py"), root], capture_output=True, text=True)
                entry["baseline"] = b.stdout.strip().splitlines()[0] if b.stdout.strip() else b.stderr[-200:]
            for chk in mu["checks"]:
                out = os.path.join(work, "out", mu["id"], chk); os.makedirs(out, exist_ok=True)
                t0 = time.time()
                c = subprocess.run(["/venv/bin/python", "-m", "vf.check", chk, "--tier", "quick"], cwd=HERE, env=dict(os.environ, VF_REPO_SRC=src, VF_OUT_DIR=out), capture_output=True, text=True)
                keys = []
                try: keys = json.load(open(os.path.join(out, "evidence", chk + ".json")))["coverage"].get("new_violation_keys", [])
                except Exception: pass
                verdict = "caught" if c.returncode == 1 and keys else ("inconclusive" if c.returncode == 2 else "missed")
                entry["checks"][chk] = {"verdict": verdict, "exit": c.returncode, "new_keys": keys[:8], "wall_s": round(time.time() - t0, 1)}
                print(mu["id"], chk, verdict, keys[:3], flush=True)
            results[mu["id"]] = entry
            json.dump(results, open(resf, "w"), indent=1, sort_keys=True)
    finally:
        shutil.rmtree(work, ignore_errors=True)
    missed = [k for k, v in results.items() if v.get("status") == "ok" and not any(c["verdict"] in ("caught", "inconclusive") for c in v["checks"].values())]
    for k in missed:
        if k in BENIGN: results[k]["benign"] = BENIGN[k]
    json.dump(results, open(resf, "w"), indent=1, sort_keys=True)
    print("mutants:", len(results), "benign (no property broken):", sorted(k for k in missed if k in BENIGN), "NOT CAUGHT:", [k for k in missed if k not in BENIGN])

if __name__ == "__main__":
    main()
