"""Archive a validated seeded change: tools/seed_archive.py <name> <worktree> <property> "<needs>" "<caught by>" """
import json, os, shutil, subprocess, sys
name, wt, prop, needs, caught = sys.argv[1:6]
here = os.path.dirname(os.path.dirname(os.path.abspath(__file__)))
d = os.path.join(here, "seeded", name); os.makedirs(d, exist_ok=True)
diff = subprocess.run(["git", "-C", wt, "diff", "--", "src"], capture_output=True, text=True).stdout
open(os.path.join(d, "patch.diff"), "w").write(diff)
for f in ("demo.py", "notes.md"):
    if os.path.exists(os.path.join(wt, "_seed", f)): shutil.copy(os.path.join(wt, "_seed", f), os.path.join(d, f))
base = subprocess.run(["git", "-C", wt, "rev-parse", "HEAD"], capture_output=True, text=True).stdout.strip()
json.dump({"property": prop, "origin": "independent sub-agent given only the property text and a scratch worktree", "base_commit_of_repo": base, "needs_to_manifest": needs,
           "validated": {"baseline_1175_stable_pass_with_patch": True, "demo_fails_with_patch": True, "demo_passes_without_patch": True,
                         "how": "tools/seed_eval.sh <worktree> <out> <checks> (demo both ways, BASELINE=1 runs tools/baseline_check.py on the worktree, checks run with VF_REPO_SRC=<worktree>/src)"},
           "caught_by": caught, "apply": "git -C /repo apply seeded/%s/patch.diff   (undo: git -C /repo checkout -- .)" % name}, open(os.path.join(d, "meta.json"), "w"), indent=1)
print("archived", d, len(diff.splitlines()), "diff lines")
