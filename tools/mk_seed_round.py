import json, os, subprocess, sys, glob, shutil
rnd, suffix, props = sys.argv[1], sys.argv[2], sys.argv[3:]
tmpl = open('' + os.path.join(os.path.dirname(os.path.abspath(__file__)), 'seed_prompt_template.txt') + '').read()
P = {json.loads(l)['id']: json.loads(l) for l in open('/verif/properties.jsonl')}
# split template: header up to '-----\n', property block, rest
head, _, rest = tmpl.partition('-----\n'); _, _, tail = rest.partition('-----\n')
tail_main, _, _ = tail.partition('IMPORTANT - be different:')
for pid in props:
    wt = f'/tmp/seed{rnd}_{pid}'
    if not os.path.exists(wt):
        subprocess.run(['git','-C','/repo','worktree','add','--detach',wt,'HEAD'],check=True,capture_output=True)
    shutil.copy('/repo/src/codemodder/_version.py', wt+'/src/codemodder/_version.py'); os.makedirs(wt+'/_seed',exist_ok=True); os.makedirs(f'/tmp/seedwork_{pid}{suffix}',exist_ok=True)
    p = P[pid]
    block = f"{pid}: {p['title']}\n\nSTATEMENT: {p['statement']}\n\nQUANTIFIER ({', '.join(p['quantifier']['over'])}): {p['quantifier']['text']}\n\nWHY THE EXISTING TESTS CANNOT SETTLE IT: {p['why_tests_cant']}\n\nCODE ANCHORS: {', '.join(p['anchors']['files'])}\n\n"
    prev = []
    for d in sorted(glob.glob(f'/verif/seeded/{pid}*')):
        m = json.load(open(d+'/meta.json')); prev.append(f"  - {os.path.basename(d)}: {m['needs_to_manifest']}")
    t = (head + '-----\n' + block + '-----\n' + tail_main).replace('/tmp/seed3_C01', wt).replace('seedwork_C01c', f'seedwork_{pid}{suffix}')
    t += "IMPORTANT - be different: other developers already seeded the following regressions for this property. Do NOT repeat them or a close variant; pick a different code site and a different triggering condition (ideally a different codemod / module / mechanism), and prefer a mechanism that involves state, ordering, caching, a rarely used option, or an interaction between two features:\n" + "\n".join(prev) + "\n"
    open(f'/tmp/agent_prompt{rnd}_{pid}.txt','w').write(t)
    print(pid, wt, len(t))
