#!/bin/sh
# Evaluate a seeded change kept in a scratch worktree: tools/seed_eval.sh <worktree> <out-dir> <check ids...>
# 1. demo fails with the patch, passes without  2. (optional BASELINE=1) baseline stays green  3. run the listed quick checks against the worktree's src
wt=$1; out=$2; shift 2
mkdir -p "$out"
export PATH=/venv/bin:$PATH SEMGREP_ENABLE_VERSION_CHECK=0 SEMGREP_SEND_METRICS=off
cd "$(dirname "$0")/.."
[ -f "$wt/src/codemodder/_version.py" ] || cp /repo/src/codemodder/_version.py "$wt/src/codemodder/_version.py"
if [ -f "$wt/_seed/demo.py" ]; then
  PYTHONPATH=$wt/src /venv/bin/python "$wt/_seed/demo.py" >/dev/null 2>&1; echo "demo with patch: exit=$? (want non-zero)"
  # (no git stash: the stash is shared by all worktrees of a repository and other sessions may be using it)
  git -C "$wt" diff -- src > "$out.patch" && git -C "$wt" checkout -q -- src && { PYTHONPATH=$wt/src /venv/bin/python "$wt/_seed/demo.py" >/dev/null 2>&1; echo "demo without patch: exit=$? (want 0)"; git -C "$wt" apply "$out.patch"; }
fi
[ -n "$BASELINE" ] && /venv/bin/python tools/baseline_check.py "$wt" | head -5
mkdir -p "$out"
for p in "$@"; do
  VF_REPO_SRC=$wt/src VF_OUT_DIR=$out /venv/bin/python -m vf.check $p --tier ${TIER:-quick} 2>&1 | grep -v "^KNOWN-FINDING" | cut -c1-400 | tail -6; echo "  -> $p exit=$?"
done
