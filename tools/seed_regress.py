"""Regression of the checks against every archived seeded change: apply seeded/<name>/patch.diff to a scratch copy of /repo (outside /repo and
/verif), run the quick tier of the check of its property (plus any extra checks named in meta.json "also") against it, record verdict and new keys.

  /venv/bin/python tools/seed_regress.py [--only <substring>] [--new]        (results -> seeded/results.json)"""
import json, os, shutil, subprocess, sys, tempfile, time, glob
HERE = os.path.dirname(os.path.dirname(os.path.abspath(__file__)))

def main():
    only = sys.argv[sys.argv.index("--only") + 1] if "--only" in sys.argv else None
    resf = os.path.join(HERE, "seeded", "results.json")
    results = json.load(open(resf)) if os.path.exists(resf) else {}
    work = tempfile.mkdtemp(prefix="vf_seedreg_")
    try:
        for d in sorted(glob.glob(os.path.join(HERE, "seeded", "*", ""))):
            name = os.path.basename(d.rstrip("/"))
            if only and only not in name: continue
            if "--new" in sys.argv and name in results: continue      # only the seeded changes that have no recorded result yet
            meta = json.load(open(os.path.join(d, "meta.json")))
            root = os.path.join(work, "repo"); shutil.rmtree(root, ignore_errors=True); os.makedirs(root)
            shutil.copytree("/repo/src", os.path.join(root, "src"), ignore=shutil.ignore_patterns("__pycache__", "*.pyc"))
            a = subprocess.run(["git", "apply", "--unsafe-paths", "--directory=" + root, os.path.join(d, "patch.diff")], cwd=root, capture_output=True, text=True)
            if a.returncode != 0:
                a = subprocess.run(["patch", "-p1", "-s", "-i", os.path.join(d, "patch.diff")], cwd=root, capture_output=True, text=True)
            base_used = "working-tree"
            if a.returncode != 0:
                # the repository moved on under the patch (a later fix: commit touched the same lines): apply it to the commit it was written against
                shutil.rmtree(root, ignore_errors=True); os.makedirs(root)
                t = subprocess.run(f"git -C /repo archive {meta['base_commit_of_repo']} src | tar -x -C {root}", shell=True, capture_output=True, text=True)
                shutil.copy("/repo/src/codemodder/_version.py", os.path.join(root, "src", "codemodder", "_version.py"))
                a = subprocess.run(["patch", "-p1", "-s", "-i", os.path.join(d, "patch.diff")], cwd=root, capture_output=True, text=True); base_used = meta["base_commit_of_repo"][:7]
            if a.returncode != 0:
                results[name] = {"status": "patch-does-not-apply", "error": (a.stderr or a.stdout)[-300:]}; print(name, "PATCH DOES NOT APPLY"); continue
            entry = {"status": "ok", "applied_to": base_used, "checks": {}, "at": time.strftime("%Y-%m-%dT%H:%M:%S")}
            demo = os.path.join(d, "demo.py")
            if os.path.exists(demo):
                env = dict(os.environ, PYTHONPATH=os.path.join(root, "src"), PATH="/venv/bin:" + os.environ.get("PATH", ""), SEMGREP_ENABLE_VERSION_CHECK="0", SEMGREP_SEND_METRICS="off")
                try: entry["demo_exit_with_patch"] = subprocess.run(["/venv/bin/python", demo], env=env, capture_output=True, timeout=900).returncode
                except subprocess.TimeoutExpired: entry["demo_exit_with_patch"] = "timeout"
            for chk in [meta["property"]] + list(meta.get("also", [])):
                out = os.path.join(work, "out", name, chk); os.makedirs(out, exist_ok=True); t0 = time.time()
                c = subprocess.run(["/venv/bin/python", "-m", "vf.check", chk, "--tier", "quick"], cwd=HERE, env=dict(os.environ, VF_REPO_SRC=os.path.join(root, "src"), VF_OUT_DIR=out), capture_output=True, text=True)
                keys = []
                try: keys = json.load(open(os.path.join(out, "evidence", chk + ".json")))["coverage"].get("new_violation_keys", [])
                except Exception: pass
                verdict = "caught" if c.returncode == 1 and keys else ("inconclusive" if c.returncode == 2 else "missed")
                entry["checks"][chk] = {"verdict": verdict, "exit": c.returncode, "new_keys": keys[:6], "wall_s": round(time.time() - t0, 1)}
                print(name, chk, verdict, keys[:3], flush=True)
            results[name] = entry
            json.dump(results, open(resf, "w"), indent=1, sort_keys=True)
    finally:
        shutil.rmtree(work, ignore_errors=True)
    missed = [k for k, v in results.items() if v.get("status") == "ok" and not any(c["verdict"] in ("caught", "inconclusive") for c in v["checks"].values())]
    print("seeded changes:", len(results), "not caught:", missed)

if __name__ == "__main__":
    main()
