"""run the repo's baseline test command on a repo dir (default /repo) and list stable_pass tests that no longer pass"""
import json, os, subprocess, sys, tempfile, xml.etree.ElementTree as ET
repo = sys.argv[1] if len(sys.argv) > 1 else "/repo"
b = json.load(open("/root/.vp/BASELINE.json"))
out = tempfile.mktemp(suffix=".xml")
env = dict(os.environ); env["PYTHONPATH"] = os.path.join(repo, "src")
env["PATH"] = os.pathsep.join(p for p in env["PATH"].split(os.pathsep) if p != "/venv/bin")
r = subprocess.run(["/venv/bin/python", "-m", "pytest", "-q", "-p", "no:cacheprovider", "--timeout=900", "--continue-on-collection-errors", "-n", "12", f"--junitxml={out}"], cwd=repo, env=env, capture_output=True, text=True)
passed = set(); failed = set()
for tc in ET.parse(out).getroot().iter("testcase"):
    tid = (tc.get("classname") or "") + "::" + (tc.get("name") or "")
    if tc.find("failure") is not None or tc.find("error") is not None: failed.add(tid)
    elif tc.find("skipped") is None: passed.add(tid)
missing = [t for t in b["stable_pass"] if t not in passed]
print("stable_pass:", len(b["stable_pass"]), "passing now:", len(set(b["stable_pass"]) & passed), "broken:", len(missing))
for t in missing[:40]: print("  BROKEN", t)
os.unlink(out)
sys.exit(1 if missing else 0)
