#!/bin/sh
# run every check of a tier in sequence; usage: tools/run_all.sh quick|thorough [ids...]
tier=${1:-quick}; shift
ids=${*:-C01 C02 C03 C04 C05 C06 C07 C08 C09 C10 C11 C12 C13 C14 C15 C16 C17 C18 C19 C20}
cd "$(dirname "$0")/.."
for p in $ids; do
  echo "=== $p $tier"; /venv/bin/python -m vf.check $p --tier $tier; echo "exit=$?"
done
