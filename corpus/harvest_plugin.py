import json, os
from textwrap import dedent
from codemodder.codemods.test import utils as U
OUT=os.environ.get("HARVEST_OUT","/tmp/exp/harvest/seeds.jsonl")
def _rec(self, kind, tmpdir, input_code, expected, kw):
    cm=self.codemod
    try: cid=cm.id
    except Exception: cid=str(cm)
    rec={"codemod":cid,"kind":kind,"input":dedent(input_code),"expected":dedent(expected),
         "num_changes":kw.get("num_changes",1),"results":kw.get("results"),"tool":getattr(self,"tool",None),
         "files":[str(f) for f in (kw.get("files") or [])],"root":str(kw.get("root") or ""),
         "lines_to_exclude":kw.get("lines_to_exclude"), "test": os.environ.get("PYTEST_CURRENT_TEST","")}
    with open(OUT,"a") as f: f.write(json.dumps(rec)+"\n")
_o1=U.BaseCodemodTest.run_and_assert
def r1(self,tmpdir,input_code,expected,*a,**kw):
    _rec(self,"core",tmpdir,input_code,expected,kw); return _o1(self,tmpdir,input_code,expected,*a,**kw)
U.BaseCodemodTest.run_and_assert=r1
_o2=U.BaseSASTCodemodTest.run_and_assert
def r2(self,tmpdir,input_code,expected,*a,**kw):
    _rec(self,"sast",tmpdir,input_code,expected,kw); return _o2(self,tmpdir,input_code,expected,*a,**kw)
U.BaseSASTCodemodTest.run_and_assert=r2
