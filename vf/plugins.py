"""PROTOTYPE: harness-defined plug-in codemods built on the public regex/XML pipeline classes, registered for one job."""
from pathlib import Path

def build(spec):
    from codemodder.registry import CodemodCollection
    from codemodder.codemods.api import FindAndFixCodemod, RemediationCodemod, Metadata, ReviewGuidance, ToolMetadata, ToolRule
    from codemodder.codemods.regex_transformer import RegexTransformerPipeline, SastRegexTransformerPipeline
    from codemodder.codemods.xml_transformer import XMLTransformerPipeline, ElementAttributeXMLTransformer, NewElementXMLTransformer, NewElement
    from codemodder.codemods.base_detector import BaseDetector
    from codemodder.result import ResultSet, Result, Location, LineInfo
    from codemodder.codetf import Finding, Rule
    class VfCodemod(FindAndFixCodemod):
        @property
        def origin(self): return "vf"
        @property
        def docs_module_path(self): return "core_codemods.docs"
    class VfSast(RemediationCodemod):
        @property
        def origin(self): return "vfsast"
        @property
        def docs_module_path(self): return "core_codemods.docs"
    class L(Location): pass
    class R(Result): pass
    class Det(BaseDetector):
        def __init__(self, findings): self.findings = findings
        def apply(self, codemod_id, context):
            rs = ResultSet()
            for f in self.findings:
                rs.add_result(R(rule_id="vf-rule", locations=[L(file=Path(f["file"]), start=LineInfo(f["line"], f.get("col", 1)), end=LineInfo(f["line"], f.get("ecol", 2)))], finding=Finding(id=f["id"], rule=Rule(id="vf-rule", name="vf-rule"))))
            return rs
    cms = []
    md = lambda name, tool=None: Metadata(name=name, summary="s", review_guidance=ReviewGuidance.MERGE_WITHOUT_REVIEW, description="d", tool=tool)
    for s in spec:
        if s["kind"] == "regex":
            cms.append(VfCodemod(metadata=md(s["name"]), transformer=RegexTransformerPipeline(s["pattern"], s["replacement"], "chg"), default_extensions=[s.get("ext", ".txt")]))
        elif s["kind"] == "sast-regex":
            cms.append(VfSast(metadata=md(s["name"], ToolMetadata(name="VF", rules=[ToolRule(id="vf-rule", name="vf-rule")])), transformer=SastRegexTransformerPipeline(s["pattern"], s["replacement"], "chg"), detector=Det(s["findings"]), default_extensions=[s.get("ext", ".txt")], requested_rules=["vf-rule"]))
        elif s["kind"] == "xml-attr":
            amap = s["map"]
            class T(ElementAttributeXMLTransformer):
                change_description = "set attr"
                def __init__(self, *a, **k): super().__init__(*a, name_attributes_map=amap, **k)
            cms.append(VfCodemod(metadata=md(s["name"]), transformer=XMLTransformerPipeline(T), default_extensions=[".xml"]))
        elif s["kind"] == "sast-xml-attr":
            amap2 = s["map"]; lom = bool(s.get("line_only"))
            class T3(ElementAttributeXMLTransformer):
                change_description = "set attr"
                def __init__(self, *a, **k): super().__init__(*a, name_attributes_map=amap2, line_only_matching=lom, **k)
            cms.append(VfSast(metadata=md(s["name"], ToolMetadata(name="VF", rules=[ToolRule(id="vf-rule", name="vf-rule")])), transformer=XMLTransformerPipeline(T3), detector=Det(s["findings"]), default_extensions=[".xml"], requested_rules=["vf-rule"]))
        elif s["kind"] == "xml-new":
            els = [NewElement(name=e["name"], parent_name=e["parent"], content=e.get("content", ""), attributes=e.get("attributes", {})) for e in s["elements"]]
            class T2(NewElementXMLTransformer):
                change_description = "add element"
                def __init__(self, *a, **k): super().__init__(*a, new_elements=els, **k)
            cms.append(VfCodemod(metadata=md(s["name"]), transformer=XMLTransformerPipeline(T2), default_extensions=[".xml"]))
    return CodemodCollection(origin="vf", codemods=cms)

class Registered:
    def __init__(self, spec): self.spec = spec
    def __enter__(self):
        from codemodder import registry as REG
        import codemodder.codemodder as CC
        self.REG = REG; self.orig = REG.load_registered_codemods
        coll = build(self.spec); orig = self.orig
        def load(*a, **k):
            r = orig(*a, **k); r.add_codemod_collection(coll); return r
        REG.load_registered_codemods = load
        return self
    def __exit__(self, *a):
        self.REG.load_registered_codemods = self.orig
