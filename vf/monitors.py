"""Monitors installed from the harness process around the real codemodder code.
Every wrapper counts evaluations; events go to one append-only list under one lock."""
import base64, os, sys, threading, time, random
from pathlib import Path

def b64(b): return base64.b64encode(b).decode("ascii")

class Trace:
    def __init__(self):
        self.lock = threading.Lock(); self.events = []; self.counters = {}; self.seq = 0
    def emit(self, _k, **kw):
        with self.lock:
            self.seq += 1
            kw["k"] = _k; kw["n"] = self.seq; kw["t"] = threading.get_ident()
            self.events.append(kw)
    def count(self, name):
        with self.lock:
            self.counters[name] = self.counters.get(name, 0) + 1

def snapshot(root: Path):
    out = {}
    for dp, dn, fn in os.walk(root, followlinks=False):
        for f in fn:
            p = Path(dp) / f
            rel = str(p.relative_to(root))
            try:
                if p.is_symlink(): out[rel] = "L:" + os.readlink(p)
                else: out[rel] = "F:" + b64(p.read_bytes())
            except OSError as e:
                out[rel] = "E:" + type(e).__name__
    return out

class InjectedFault(Exception):
    pass

class Monitors:
    """cfg keys: write, pipe, file, cm, dep, ctx, sg, fs (bools); delays {seed, max_ms}; faults [..]; target Path"""
    def __init__(self, cfg, trace: Trace, target: Path):
        self.cfg = cfg; self.tr = trace; self.target = Path(target); self._undo = []
        self.inflight = 0; self.tl = threading.local(); self.current_codemod = None
        self._fs_on = False

    def _patch(self, obj, name, new):
        old = obj.__dict__.get(name, getattr(obj, name))
        setattr(obj, name, new)
        self._undo.append((obj, name, old))

    def __enter__(self):
        cfg, tr = self.cfg, self.tr
        from codemodder.codemods import libcst_transformer as LT, base_codemod as BC, regex_transformer as RT, xml_transformer as XT
        from codemodder import context as CTX
        mon = self
        if cfg.get("write", True):
            orig_uc = LT.update_code
            def update_code(file_path, new_code):
                tr.count("update_code")
                for f in (cfg.get("faults") or []):
                    # the write itself fails (read-only file, full disk): injected at the hook, so it does not depend on the OS or on being root
                    if f.get("kind") == "write_error" and Path(file_path).name == f.get("file"):
                        tr.emit("fault", kind="write_error", path=str(file_path), cm=mon.current_codemod)
                        raise PermissionError(13, "Permission denied (injected)", str(file_path))
                try: before = Path(file_path).read_bytes()
                except OSError: before = None
                r = orig_uc(file_path, new_code)
                tr.emit("write", path=str(file_path), before=None if before is None else b64(before), after=b64(new_code.encode("utf-8")), cm=mon.current_codemod)
                return r
            self._patch(LT, "update_code", update_code)
        if cfg.get("pipe", True):
            for cls, nm in ((LT.LibcstTransformerPipeline, "libcst"), (RT.RegexTransformerPipeline, "regex"), (XT.XMLTransformerPipeline, "xml")):
                orig_ap = cls.apply
                def make(orig, nm):
                    def apply(self_, context, file_context, results, *a_, **kw_):      # wrappers pass unknown extra arguments through: an added parameter must not blind the monitor
                        tr.count("pipe_" + nm)
                        p = file_context.file_path
                        try: before = p.read_bytes()
                        except OSError: before = None
                        cs = orig(self_, context, file_context, results, *a_, **kw_)
                        try: after = p.read_bytes()
                        except OSError: after = None
                        tr.emit("pipe", pipeline=nm, path=str(p), before=None if before is None else b64(before), after=None if after is None else b64(after),
                                n_findings=None if results is None else len(results), line_include=list(file_context.line_include), line_exclude=list(file_context.line_exclude),
                                changeset=None if cs is None else cs.model_dump(mode="json"), failures=[str(x) for x in file_context.failures],
                                n_unfixed=len(file_context.unfixed_findings), cm=mon.current_codemod, dry=bool(context.dry_run))
                        return cs
                    return apply
                self._patch(cls, "apply", make(orig_ap, nm))
        if cfg.get("file", True):
            orig_pf = BC.BaseCodemod._process_file
            delays = cfg.get("delays"); faults = cfg.get("faults") or []
            def _process_file(self_, filename, *a_, **kw_):
                tr.count("process_file")
                with tr.lock:
                    mon.inflight += 1; cur = mon.inflight
                tr.emit("file_begin", path=str(filename), inflight=cur, cm=self_.id)
                try:
                    if delays:
                        rnd = random.Random(f"{delays.get('seed',0)}:{filename.name}:{self_.id}")
                        time.sleep(rnd.random() * delays.get("max_ms", 5) / 1000.0)
                    for f in faults:
                        if f.get("kind") == "vanish" and f.get("file") == filename.name and f.get("cm", self_.id) == self_.id and not f.get("_done"):
                            f["_done"] = True
                            try: os.remove(filename)
                            except OSError: pass
                            tr.emit("fault", kind="vanish", path=str(filename), cm=self_.id)
                    mon.tl.file = filename.name
                    return orig_pf(self_, filename, *a_, **kw_)
                finally:
                    mon.tl.file = None
                    with tr.lock: mon.inflight -= 1
                    tr.emit("file_end", path=str(filename), cm=self_.id)
            self._patch(BC.BaseCodemod, "_process_file", _process_file)
            # transformer-level fault: raise inside transform for a given file
            fps = [f for f in faults if f.get("kind") == "failpoint"]
            def transform_fp(inner):
                if not fps: return inner
                import sys as _sys
                monx = _sys.monitoring; TOOL = 4
                try: monx.use_tool_id(TOOL, "vf-failpoints")
                except ValueError: pass
                st = {"file": None, "n": 0}
                def on_start(code, off):
                    if not code.co_filename.startswith(("/repo/src/", os.environ.get("VF_REPO_SRC", "/repo/src"))): return monx.DISABLE
                    if st["file"] is None or mon.tl.__dict__.get("fp_file") != st["file"]: return None
                    st["n"] += 1
                    for f in fps:
                        if f["file"] == st["file"] and st["n"] == f["j"] and mon.current_codemod not in f.setdefault("_done_cm", set()):
                            f["_done_cm"].add(mon.current_codemod)
                            tr.emit("fault", kind="failpoint", where=code.co_qualname, j=f["j"], path=st["file"], cm=mon.current_codemod)
                            raise InjectedFault(f"failpoint #{f['j']} in {code.co_qualname}")
                monx.register_callback(TOOL, monx.events.PY_START, on_start)
                def wrapped(cls, module, results, file_context):
                    name = file_context.file_path.name
                    if any(f["file"] == name and mon.current_codemod not in f.get("_done_cm", ()) for f in fps):
                        st["file"] = name; st["n"] = 0; mon.tl.fp_file = name
                        monx.set_events(TOOL, monx.events.PY_START)
                        try: return inner(cls, module, results, file_context)
                        except InjectedFault:
                            tr.emit("fault_escaped", kind="failpoint", path=name, cm=mon.current_codemod)      # the injected exception left the transformer (code that handles it internally has processed the file)
                            raise
                        finally:
                            monx.set_events(TOOL, 0); st["file"] = None; mon.tl.fp_file = None
                            tr.emit("fp_count", path=name, entries=st["n"])
                    return inner(cls, module, results, file_context)
                return wrapped
            orig_tf = LT.LibcstResultTransformer.transform.__func__
            def transform(cls, module, results, file_context):
                tr.count("transform")
                for f in faults:
                    if f.get("kind") == "raise_transform" and f.get("file") == file_context.file_path.name and f.get("cm", mon.current_codemod) == mon.current_codemod:
                        tr.emit("fault", kind="raise_transform", path=str(file_context.file_path), cm=mon.current_codemod)
                        raise InjectedFault("injected transformer fault")
                return orig_tf(cls, module, results, file_context)
            self._patch(LT.LibcstResultTransformer, "transform", classmethod(transform_fp(transform)))
        if cfg.get("cm", True):
            orig_apply = BC.BaseCodemod._apply
            def _apply(self_, context, *a_, **kw_):
                tr.count("_apply")
                mon.current_codemod = self_.id
                for f in (cfg.get("faults") or []):
                    # file deleted after the prefilter and before this codemod's detector runs
                    if f.get("kind") == "vanish_before_detector" and not f.get("_done"):
                        f["_done"] = True
                        try: os.remove(mon.target / f["file"])
                        except OSError: pass
                        tr.emit("fault", kind="vanish_before_detector", path=str(mon.target / f["file"]), cm=self_.id)
                tr.emit("cm_begin", cm=self_.id, snap=snapshot(mon.target) if cfg.get("snap", True) else None)
                return orig_apply(self_, context, *a_, **kw_)
            self._patch(BC.BaseCodemod, "_apply", _apply)
            orig_log = CTX.CodemodExecutionContext.log_changes
            def log_changes(self_, codemod_id):
                r = orig_log(self_, codemod_id)
                tr.count("log_changes")
                tr.emit("cm_end", cm=codemod_id, snap=snapshot(mon.target) if cfg.get("snap", True) else None)
                mon.current_codemod = None
                return r
            self._patch(CTX.CodemodExecutionContext, "log_changes", log_changes)
        if cfg.get("dep", True):
            from codemodder.dependency_management import dependency_manager as DM
            orig_w = DM.DependencyManager.write
            def write(self_, dependencies, dry_run=False, *a_, **kw_):
                tr.count("dep_write")
                p = Path(self_.dependencies_store.file)
                try: before = p.read_bytes()
                except OSError: before = None
                cs = orig_w(self_, dependencies, dry_run, *a_, **kw_)
                try: after = p.read_bytes()
                except OSError: after = None
                tr.emit("dep_write", store=self_.dependencies_store.type.value, path=str(p), before=None if before is None else b64(before), after=None if after is None else b64(after),
                        changeset=None if cs is None else cs.model_dump(mode="json"), deps=[str(d.requirement) for d in dependencies], dry=bool(dry_run), cm=mon.current_codemod)
                return cs
            self._patch(DM.DependencyManager, "write", write)
        if cfg.get("ctx", True):
            main = threading.get_ident()
            for meth in ("add_changesets", "add_failures", "add_dependencies", "add_unfixed_findings"):
                orig_m = getattr(CTX.CodemodExecutionContext, meth)
                def mk(orig_m, meth):
                    def w(self_, codemod_id, items):
                        tr.count("ctx_" + meth)
                        tr.emit("ctx_mut", method=meth, cm=codemod_id, main=threading.get_ident() == main, size=len(items) if hasattr(items, "__len__") else None)
                        return orig_m(self_, codemod_id, items)
                    return w
                self._patch(CTX.CodemodExecutionContext, meth, mk(orig_m, meth))
        if cfg.get("sg", True):
            import codemodder.semgrep as SG, codemodder.codemods.semgrep as CS, codemodder.codemodder as CC
            orig_run = SG.run
            def mkrun(kind):
                def run(execution_context, yaml_files, files_to_analyze=None):
                    tr.count("semgrep_" + kind)
                    files = None if files_to_analyze is None else [str(x) for x in files_to_analyze]
                    rs = orig_run(execution_context, yaml_files, files_to_analyze)
                    tr.emit("sg_call", kind=kind, targets=files, rules=len(list(yaml_files)), results={k: {str(p): len(v) for p, v in d.items()} for k, d in rs.items()},
                            locs={k: {str(p): [[l.start.line, l.start.column, l.end.line, l.end.column] for r in v for l in r.locations if str(l.file) == str(p)] for p, v in d.items()} for k, d in rs.items()} if cfg.get("sg_locs") else None)
                    return rs
                return run
            self._patch(CS, "semgrep_run", mkrun("own"))
            self._patch(CC, "run_semgrep", mkrun("prefilter"))
        if cfg.get("sarif_tools"):
            # H-rs at the CLI's routing step: which tool each --sarif file was filed under
            import codemodder.codemodder as CC2
            orig_det = CC2.detect_sarif_tools
            def detect_sarif_tools(filenames):
                tr.count("detect_sarif_tools")
                res = orig_det(filenames)
                tr.emit("sarif_tools", files=[str(f) for f in filenames], map={k: list(v_) for k, v_ in res.items()})
                return res
            self._patch(CC2, "detect_sarif_tools", detect_sarif_tools)
        if cfg.get("fs", False):
            self._fs_on = True
            _install_audit(tr, self)
        if cfg.get("yield"):
            # schedule perturbation: yield the GIL at statement starts inside repository code (H-fp, LINE events)
            y = cfg["yield"]; monx = sys.monitoring; TOOL = 5
            try: monx.use_tool_id(TOOL, "vf-yield")
            except ValueError: pass
            rnd = random.Random(y.get("seed", 0)); p_ = float(y.get("p", 0.02)); roots = ("/repo/src/", os.environ.get("VF_REPO_SRC", "/repo/src"))
            lk = threading.Lock(); st = {"n": 0, "y": 0}
            def on_line(code, line):
                if not code.co_filename.startswith(roots): return monx.DISABLE
                with lk:
                    st["n"] += 1; hit = rnd.random() < p_
                    if hit: st["y"] += 1
                if hit: time.sleep(0)
            monx.register_callback(TOOL, monx.events.LINE, on_line); monx.set_events(TOOL, monx.events.LINE)
            self._old_switch = sys.getswitchinterval(); sys.setswitchinterval(1e-6)
            self._yield = (monx, TOOL, st)
        return self

    def __exit__(self, *a):
        self._fs_on = False
        if getattr(self, "_yield", None):
            monx, TOOL, st = self._yield
            monx.set_events(TOOL, 0); monx.register_callback(TOOL, monx.events.LINE, None); monx.free_tool_id(TOOL)
            sys.setswitchinterval(self._old_switch)
            self.tr.counters["line_events"] = self.tr.counters.get("line_events", 0) + st["n"]; self.tr.counters["yields_injected"] = self.tr.counters.get("yields_injected", 0) + st["y"]
            self._yield = None
        for obj, name, old in reversed(self._undo):
            setattr(obj, name, old)
        self._undo.clear()

_AUDIT = {"installed": False, "mon": None, "tr": None}
_W = os.O_WRONLY | os.O_RDWR | os.O_CREAT | os.O_TRUNC | os.O_APPEND
def _install_audit(tr, mon):
    _AUDIT["mon"] = mon; _AUDIT["tr"] = tr
    if _AUDIT["installed"]: return
    _AUDIT["installed"] = True
    names = {"os.remove", "os.rename", "os.mkdir", "os.rmdir", "os.truncate", "os.chmod", "os.utime", "os.link", "os.symlink", "shutil.copyfile", "shutil.move", "shutil.rmtree", "os.chown"}
    def hook(name, args):
        m = _AUDIT["mon"]
        if m is None or not m._fs_on: return
        try:
            if name == "open":
                p, mode, flags = args
                if isinstance(flags, int) and flags & _W and isinstance(p, (str, bytes, os.PathLike)):
                    _AUDIT["tr"].emit("fs", op="open_w", path=os.fsdecode(p), flags=flags)
            elif name in names:
                _AUDIT["tr"].emit("fs", op=name, path=[os.fsdecode(a) if isinstance(a, (str, bytes, os.PathLike)) else repr(a) for a in args[:2]])
        except Exception:
            pass
    sys.addaudithook(hook)
