import os, sys
REPO_SRC = os.environ.get("VF_REPO_SRC", "/repo/src")
VENV_BIN = "/venv/bin"
PY = os.path.join(VENV_BIN, "python")
HERE = os.path.dirname(os.path.dirname(os.path.abspath(__file__)))

def prepare_process_env():
    """environment of the harness process itself (some checks import codemodder in-process)"""
    os.environ["PATH"] = VENV_BIN + os.pathsep + os.environ.get("PATH", "")
    os.environ["SEMGREP_ENABLE_VERSION_CHECK"] = "0"
    os.environ["SEMGREP_SEND_METRICS"] = "off"
    os.environ.setdefault("PYTHONDONTWRITEBYTECODE", "1")
    for k in list(os.environ):
        if k.startswith("CODEMODDER_"): del os.environ[k]
    if REPO_SRC != "/repo/src" and REPO_SRC not in sys.path:
        sys.path.insert(0, REPO_SRC)

def child_env(extra=None, scratch_home=None):
    e = dict(os.environ)
    e["PATH"] = VENV_BIN + os.pathsep + e.get("PATH", "")
    e["SEMGREP_ENABLE_VERSION_CHECK"] = "0"
    e["SEMGREP_SEND_METRICS"] = "off"
    e["PYTHONDONTWRITEBYTECODE"] = "1"
    e.setdefault("PYTHONHASHSEED", "0")
    for k in list(e):
        if k.startswith("CODEMODDER_"):
            del e[k]
    pp = [p for p in e.get("PYTHONPATH", "").split(os.pathsep) if p]
    want = [HERE] + ([REPO_SRC] if REPO_SRC != "/repo/src" else [])
    e["PYTHONPATH"] = os.pathsep.join(want + [p for p in pp if p not in want])
    if scratch_home:
        e["HOME"] = scratch_home
    if extra:
        e.update(extra)
    return e
