"""PROTOTYPE: one real CLI process with monitors installed: python -m vf.cli_boot <trace.json> <monitors-json> <target> -- argv..."""
import json, sys, os
from pathlib import Path

def main():
    trace_path, mon_json, target = sys.argv[1], sys.argv[2], sys.argv[3]
    argv = sys.argv[sys.argv.index("--") + 1:]
    from vf import monitors as M
    tr = M.Trace()
    rc = None
    sys.argv = ["codemodder"] + argv
    with M.Monitors(json.loads(mon_json), tr, Path(target)):
        from codemodder.codemodder import main as cm_main
        try:
            cm_main()
        except SystemExit as e:
            rc = e.code
    json.dump({"rc": rc, "events": tr.events, "counters": tr.counters}, open(trace_path, "w"))
    sys.exit(rc)

if __name__ == "__main__":
    main()
