"""One real CLI process with monitors installed: python -m vf.cli_boot <trace.json> <monitors-json> <target> -- argv...
The interpreter-level parameters (PYTHONHASHSEED, switch interval, environment) are real; the trace is written even when the run raises."""
import json, sys, os, traceback
from pathlib import Path

def main():
    trace_path, mon_json, target = sys.argv[1], sys.argv[2], sys.argv[3]
    argv = sys.argv[sys.argv.index("--") + 1:]
    from vf import monitors as M
    tr = M.Trace()
    rc = None; exc = None
    sys.argv = ["codemodder"] + argv
    try:
        with M.Monitors(json.loads(mon_json), tr, Path(target)):
            from codemodder.codemodder import main as cm_main
            try:
                cm_main()
            except SystemExit as e:
                rc = e.code
            except BaseException as e:
                exc = type(e).__name__ + ": " + str(e)[:300]; rc = 1
                traceback.print_exc()
    finally:
        json.dump({"rc": rc, "exc": exc, "events": tr.events, "counters": tr.counters}, open(trace_path, "w"))
    sys.exit(rc)

if __name__ == "__main__":
    main()
