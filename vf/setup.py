"""setup_cmd: nothing to build or install; verify that what the checks rely on is usable offline."""
import os, shutil, subprocess, sys
def main():
    from vf import env
    env.prepare_process_env()
    ok = True
    for tool in ("semgrep", "strace"):
        p = shutil.which(tool)
        print(f"{tool}: {p}")
        ok &= p is not None
    try:
        import codemodder, libcst, jsonschema, packaging  # noqa
        print("codemodder from", os.path.dirname(codemodder.__file__))
    except Exception as e:
        print("import failed:", e); ok = False
    here = os.path.dirname(os.path.dirname(os.path.abspath(__file__)))
    ok &= os.path.exists(os.path.join(here, "corpus", "seeds.jsonl"))
    os.makedirs(os.path.join(here, "evidence"), exist_ok=True)
    return 0 if ok else 1
if __name__ == "__main__": sys.exit(main())
