"""Sentinel-delimited replicated sites: which copies did a run rewrite?  (shared by C06 and C13)

A copy of the seed body sits between `# VF-SITE-i-BEGIN` / `# VF-SITE-i-END` comment lines. libcst attaches comment lines to the statement that
FOLLOWS them, so a statement a codemod inserts in front of site i+1 lands before site i's END sentinel; and a codemod that rebuilds a statement
may drop its leading comment lines altogether. Comparing the text between sentinels would blame site i for both. The decision is therefore made
on the ORIGINAL body lines: a site is rewritten iff one of its original body lines was replaced or deleted, or a line was inserted strictly
between two of its body lines."""
import ast, difflib

def opcodes(before: str, after: str):
    A = before.splitlines(); B = after.splitlines()
    return A, B, difflib.SequenceMatcher(None, A, B, autojunk=False).get_opcodes()

def sites_rewritten(before: str, after: str, ranges):
    """ranges: list of (first_body_line, last_body_line), 1-based inclusive. -> set of site indexes"""
    A, B, ops = opcodes(before, after)
    hit = set()
    for tag, i1, i2, j1, j2 in ops:
        if tag == "equal": continue
        for k, (s, e) in enumerate(ranges):
            if tag in ("replace", "delete"):
                if any(s <= ln <= e for ln in range(i1 + 1, i2 + 1)): hit.add(k)
            elif tag == "insert":
                if s <= i1 <= e - 1: hit.add(k)   # inserted after body line >= s and before body line <= e
    return hit

def edited_lines_by_site(before: str, after: str, ranges):
    """per site: sorted original line numbers that were replaced/deleted, plus insertion points strictly inside (reported as the following line)"""
    A, B, ops = opcodes(before, after)
    out = [set() for _ in ranges]; boundary = [0 for _ in ranges]; outside = 0
    for tag, i1, i2, j1, j2 in ops:
        if tag == "equal": continue
        placed = False
        for k, (s, e) in enumerate(ranges):
            if tag in ("replace", "delete"):
                ls = [ln for ln in range(i1 + 1, i2 + 1) if s <= ln <= e]
                if ls: out[k].update(ls); placed = True
            elif s <= i1 <= e - 1: out[k].add(i1 + 1); placed = True
            elif tag == "insert" and i1 in (s - 1, e): boundary[k] += 1
        if not placed: outside += 1
    return [sorted(x) for x in out], boundary, outside

def header_range(src: str, line: int):
    """(first, last) line of the smallest statement *header* containing `line`: the whole statement for a simple statement,
    the lines before the first body statement for a compound one. None if unparsable / not inside a statement."""
    try: t = ast.parse(src)
    except SyntaxError: return None
    best = None
    for n in ast.walk(t):
        if not isinstance(n, ast.stmt): continue
        first = min([n.lineno] + [d.lineno for d in getattr(n, "decorator_list", [])])
        end = n.end_lineno or n.lineno
        body = getattr(n, "body", None)
        if isinstance(body, list) and body and isinstance(body[0], ast.stmt): end = max(n.lineno, body[0].lineno - 1) if body[0].lineno > n.lineno else n.lineno
        if first <= line <= end and (best is None or end - first <= best[1] - best[0]): best = (first, end)
    return best

def single_line_replacements(before: str, after: str, ranges):
    """per site: the original line number if the site's whole edit is ONE original line replaced by ONE new line, else None
    ("an edit confined to one physical line"); also the number of edit operations outside every site body"""
    A, B, ops = opcodes(before, after)
    per = [[] for _ in ranges]; outside = 0
    for tag, i1, i2, j1, j2 in ops:
        if tag == "equal": continue
        placed = False
        for k, (s, e) in enumerate(ranges):
            inside = (tag in ("replace", "delete") and any(s <= ln <= e for ln in range(i1 + 1, i2 + 1))) or (tag == "insert" and s <= i1 <= e - 1)
            if inside: per[k].append((tag, i1, i2, j1, j2)); placed = True
        if not placed: outside += 1
    out = []
    for lst in per:
        if len(lst) == 1 and lst[0][0] == "replace" and lst[0][2] - lst[0][1] == 1 and lst[0][4] - lst[0][3] == 1: out.append(lst[0][1] + 1)
        else: out.append(None)
    return out, outside

# ---- statement sentinels -------------------------------------------------------------------------------------------------
# The sentinels are assignment STATEMENTS, not comments: libcst keeps a statement where it is, so a statement a codemod inserts
# in front of the first statement of site i+1 lands after `VF_SITE_<i+1>_BEGIN = 0`, and one appended to the last block of
# site i lands before `VF_SITE_<i>_END = 0`. The text between the two sentinels of a site is therefore exactly the site.
def BEGIN(i): return f"VF_SITE_{i}_BEGIN = 0\n"
def END(i): return f"VF_SITE_{i}_END = 0\n"

def site_text(text: str, i: int):
    a = text.find(BEGIN(i)); b = text.find(END(i))
    return text[a + len(BEGIN(i)):b] if a >= 0 and b >= 0 else None

def sites_changed(before: str, after: str, k: int):
    """indexes of the sites whose text between the sentinels differs (None-safe: a vanished sentinel counts as changed)"""
    return {i for i in range(k) if site_text(after, i) != site_text(before, i)}
