"""Pool of long-lived worker subprocesses with per-job watchdogs (no multiprocessing.Pool)."""
import json, os, queue, select, subprocess, threading, time
from vf import env

class Worker:
    def __init__(self, idx, scratch):
        self.idx = idx; self.scratch = scratch; self.start()
    def start(self):
        e = env.child_env({"VF_SCRATCH": self.scratch}, scratch_home=os.path.join(self.scratch, f"home{self.idx}"))
        os.makedirs(e["HOME"], exist_ok=True)
        e["TMPDIR"] = os.path.join(self.scratch, f"tmp{self.idx}"); os.makedirs(e["TMPDIR"], exist_ok=True)
        self.p = subprocess.Popen([env.PY, "-m", "vf.worker"], stdin=subprocess.PIPE, stdout=subprocess.PIPE, stderr=subprocess.DEVNULL, env=e, text=True, bufsize=1, cwd=self.scratch)
    def kill(self):
        try: self.p.kill(); self.p.wait(timeout=5)
        except Exception: pass
    def call(self, job, timeout):
        try:
            self.p.stdin.write(json.dumps(job) + "\n"); self.p.stdin.flush()
        except (BrokenPipeError, OSError):
            self.kill(); self.start(); return {"id": job.get("id"), "status": "worker_died"}
        deadline = time.monotonic() + timeout
        while True:
            left = deadline - time.monotonic()
            if left <= 0:
                self.kill(); self.start(); return {"id": job.get("id"), "status": "timeout"}
            r, _, _ = select.select([self.p.stdout], [], [], min(left, 1.0))
            if r:
                line = self.p.stdout.readline()
                if not line:
                    self.kill(); self.start(); return {"id": job.get("id"), "status": "worker_died"}
                return json.loads(line)
            if self.p.poll() is not None:
                self.start(); return {"id": job.get("id"), "status": "worker_died"}

class Pool:
    def __init__(self, n=None, scratch=None):
        import tempfile
        self.n = n or int(os.environ.get("VF_WORKERS", "14"))
        self.scratch = scratch or tempfile.mkdtemp(prefix="vf_pool_")
        self.workers = [Worker(i, self.scratch) for i in range(self.n)]
    def map(self, jobs, timeout=120, retry=1, progress=None):
        q = queue.Queue(); results = {}
        for i, j in enumerate(jobs): q.put((i, j, 0))
        lock = threading.Lock()
        def loop(w):
            while True:
                try: i, j, tries = q.get_nowait()
                except queue.Empty: return
                r = w.call(j, timeout)
                if r.get("status") in ("timeout", "worker_died") and tries < retry:
                    q.put((i, j, tries + 1)); continue
                with lock:
                    results[i] = r
                    if progress and len(results) % progress == 0: print(f"  .. {len(results)}/{len(jobs)}", flush=True)
        ts = [threading.Thread(target=loop, args=(w,), daemon=True) for w in self.workers]
        for t in ts: t.start()
        for t in ts: t.join()
        return [results[i] for i in range(len(jobs))]
    def close(self):
        import shutil
        for w in self.workers:
            try:
                w.p.stdin.write(json.dumps({"op": "quit"}) + "\n"); w.p.stdin.flush(); w.p.wait(timeout=5)
            except Exception:
                w.kill()
        shutil.rmtree(self.scratch, ignore_errors=True)
