"""Dispatcher: /venv/bin/python -m vf.check C07 --tier quick|thorough   (cwd = checkout of /verif)"""
import importlib, os, sys, warnings

def main():
    warnings.simplefilter("ignore")
    if len(sys.argv) < 2 or not sys.argv[1].upper().startswith("C"):
        print("usage: python -m vf.check C<NN> [--tier quick|thorough]"); return 64
    prop = sys.argv[1].upper()
    from vf import env
    env.prepare_process_env()
    mod = importlib.import_module("vf.checks." + prop.lower())
    return mod.main()

if __name__ == "__main__":
    sys.exit(main())
