"""PROTOTYPE (design phase, not committed): runtime-monitoring harness for codemodder-python."""
