"""Replay a violation artefact: /venv/bin/python -m vf.replay evidence/replays/C07/<key>.json
Re-runs the recorded job(s) against the current /repo tree and re-judges them with the check's own judge."""
import importlib, json, os, sys, warnings

def main():
    warnings.simplefilter("ignore")
    path = sys.argv[1]
    art = json.load(open(path, encoding="utf-8"))
    prop = art["property"]
    from vf import env
    env.prepare_process_env()
    mod = importlib.import_module(art.get("module") or ("vf.checks." + prop.lower()))
    print(f"replaying {prop} key={art['key']}: {art['what'][:200]}")
    if hasattr(mod, "replay"):
        vs = mod.replay(art)
    else:
        jobs = art.get("jobs") or []
        if not jobs:
            print("artefact carries no job; see witness"); print(json.dumps(art["witness"], indent=1)[:4000]); return 2
        from vf.runner import run_jobs
        res = run_jobs(jobs, timeout=900)
        vs = []
        for j, r in zip(jobs, res):
            if r.get("status") != "ok": print("job", j.get("id"), "status", r.get("status")); continue
            v, _, _ = mod.judge(j, r)
            vs += v
    same = [v for v in vs if v.key == art["key"]]
    for v in vs: print(f"  reproduced key={v.key}: {v.what[:300]}")
    if same: print(f"VIOLATION property={prop} replay={path}"); return 1
    print("not reproduced on the current tree"); return 0

if __name__ == "__main__":
    sys.exit(main())
