"""generators: contexts, import restyling, layouts"""
import ast, collections, textwrap, re
import libcst as cst

def split_head(src):
    tree=ast.parse(src); lines=src.splitlines(keepends=True); k=0
    for node in tree.body:
        if isinstance(node,(ast.Import,ast.ImportFrom)): k=node.end_lineno
        elif isinstance(node,ast.Expr) and isinstance(node.value,ast.Constant) and isinstance(node.value.value,str) and k==0: k=node.end_lineno
        else: break
    return "".join(lines[:k]),"".join(lines[k:])

def ctx(src,kind):
    head,body=split_head(src)
    if not body.strip(): return None
    if not body.endswith("\n"): body+="\n"
    ind=lambda s,n=1: textwrap.indent(s,"    "*n)
    if kind=="module": return src
    if kind=="def": return head+"def wrapper_fn(param_a=None):\n"+ind(body)
    if kind=="async": return head+"async def wrapper_fn(param_a=None):\n"+ind(body)
    if kind=="method": return head+"class Wrapper:\n    attr = 1\n\n    def method(self, param_a=None):\n"+ind(body,2)
    if kind=="nested": return head+"def wrapper_fn(flag=True):\n    try:\n        if flag:\n"+ind(body,3)+"    finally:\n        pass\n"
    if kind=="closure":
        # every name the body assigns at its top level is read ONLY-or-also from a nested function: a binding that looks unused in its own scope is still in use
        try: t=ast.parse(body)
        except SyntaxError: return None
        names=[]
        for n in t.body:
            tg=n.targets if isinstance(n,ast.Assign) else ([n.target] if isinstance(n,(ast.AnnAssign,ast.AugAssign)) and getattr(n,"value",None) is not None else [])
            for x in tg:
                if isinstance(x,ast.Name) and x.id not in names: names.append(x.id)
        if not names: return None
        return head+"def wrapper_fn(param_a=None):\n"+ind(body)+"    def vf_inner():\n        return ("+", ".join(names[:6])+",)\n    return vf_inner\n"
    if kind=="global":
        # the body inside a function that rebinds MODULE-level names: every name the body assigns at its top level is declared global (the factory layout `app = None / def create(): global app; app = ...`)
        try: t=ast.parse(body)
        except SyntaxError: return None
        names=[]
        for n in t.body:
            tg=n.targets if isinstance(n,ast.Assign) else ([n.target] if isinstance(n,ast.AnnAssign) and n.value is not None else [])
            for x in tg:
                if isinstance(x,ast.Name) and x.id not in names: names.append(x.id)
        if not names: return None
        out=head+"".join(f"{nm} = None\n" for nm in names)+"def wrapper_fn(param_a=None):\n    global "+", ".join(names)+"\n"+ind(body)
        try: compile(out,"<global>","exec")
        except SyntaxError: return None
        return out
    if kind=="comprehension":
        # every single-line call statement of the body moves into a comprehension whose loop variables carry the short names rewrites like to generate (p, f, e, x, i, lock, file)
        try: t=ast.parse(body)
        except SyntaxError: return None
        L=body.splitlines(keepends=True); n_=0
        per=collections.Counter(n.lineno for n in ast.walk(t) if isinstance(n,ast.stmt))
        for n in sorted((x for x in ast.walk(t) if isinstance(x,(ast.Assign,ast.Expr,ast.Return))),key=lambda x:-x.lineno):
            if n_: break      # the last eligible statement of the body (usually the trigger); earlier ones stay as they are so that what they bind keeps its type
            v=getattr(n,"value",None)
            if not isinstance(v,ast.Call) or n.lineno!=n.end_lineno or per[n.lineno]!=1: continue
            l=L[n.lineno-1]; b=l.rstrip("\r\n"); nl=l[len(b):] or "\n"
            if "#" in b or not b.isascii() or v.end_col_offset!=len(b) or b.rstrip().endswith(";"): continue
            used={x.id for x in ast.walk(t) if isinstance(x,ast.Name)}|{a.arg for x in ast.walk(t) if isinstance(x,ast.arguments) for a in x.args+x.kwonlyargs}
            loops=" ".join(f"for {nm} in vf_iter" for nm in ("p","f","e","x","i","lock","file") if nm not in used)      # a loop variable must not capture a name the body already uses
            if not loops: continue
            L[n.lineno-1]=f"{b[:v.col_offset]}[{b[v.col_offset:]} {loops}]{nl}"; n_+=1
        if not n_: return None
        return head+"def wrapper_fn(vf_iter=(1,)):\n"+ind("".join(L))
    if kind=="prelude": return head+"".join(f"CONST_{i} = {i}\n" for i in range(7))+"\n"+body
    raise ValueError(kind)

class _Alias(cst.CSTTransformer):
    """import m -> import m as m_al ; rename Name(m) loads"""
    def __init__(self,mod,alias): self.mod=mod; self.alias=alias; self.done=False
    def leave_Import(self,o,u):
        names=[]
        for a in u.names:
            if isinstance(a.name,cst.Name) and a.name.value==self.mod and a.asname is None:
                names.append(a.with_changes(asname=cst.AsName(name=cst.Name(self.alias),whitespace_before_as=cst.SimpleWhitespace(" "),whitespace_after_as=cst.SimpleWhitespace(" ")))); self.done=True
            else: names.append(a)
        return u.with_changes(names=names)
    def leave_Name(self,o,u):
        return u
def alias_import(src):
    """pick first 'import m' (simple name) and alias it, renaming uses m.x -> al.x"""
    try: tree=ast.parse(src)
    except SyntaxError: return None
    mods=[a.name for n in tree.body if isinstance(n,ast.Import) for a in n.names if a.asname is None and "." not in a.name]
    if not mods: return None
    mod=mods[0]; al=mod+"_al"
    # names bound elsewhere to mod? skip if assigned
    for n in ast.walk(tree):
        if isinstance(n,ast.Name) and n.id==mod and isinstance(n.ctx,(ast.Store,ast.Del)): return None
    m=cst.parse_module(src)
    class R(cst.CSTTransformer):
        def __init__(s): s.in_import=0
        def visit_Import(s,n): s.in_import+=1
        def leave_Import(s,o,u):
            s.in_import-=1
            names=[a.with_changes(asname=cst.AsName(name=cst.Name(al))) if (isinstance(a.name,cst.Name) and a.name.value==mod and a.asname is None) else a for a in u.names]
            return u.with_changes(names=names)
        def visit_ImportFrom(s,n): s.in_import+=1
        def leave_ImportFrom(s,o,u): s.in_import-=1; return u
        def visit_Attribute(s,n): return True
        def leave_Attribute(s,o,u):
            # the attribute NAME (x.<attr>) is not a use of the module binding: keep it (datetime.datetime -> datetime_al.datetime)
            return u.with_changes(attr=o.attr)
        def leave_Name(s,o,u):
            if s.in_import==0 and u.value==mod: return u.with_changes(value=al)
            return u
        def leave_Arg(s,o,u):
            # keyword names are Name nodes too: restore
            if o.keyword is not None and o.keyword.value==mod: return u.with_changes(keyword=o.keyword)
            return u
    out=m.visit(R()).code
    # attribute attr names equal to mod would be renamed wrongly: verify by ast that only Name loads changed
    try: ast.parse(out)
    except SyntaxError: return None
    return out

def from_import(src):
    """import m ; m.f(...) -> from m import f ; f(...)  (all uses must be m.<attr> with single-level attr)"""
    try: tree=ast.parse(src)
    except SyntaxError: return None
    mods=[a.name for n in tree.body if isinstance(n,ast.Import) and len(n.names)==1 for a in n.names if a.asname is None and "." not in a.name]
    if not mods: return None
    mod=mods[0]
    uses=[n for n in ast.walk(tree) if isinstance(n,ast.Name) and n.id==mod]
    attrs=set(); parents={}
    for p in ast.walk(tree):
        for c in ast.iter_child_nodes(p): parents[c]=p
    for u in uses:
        p=parents.get(u)
        if not (isinstance(p,ast.Attribute) and p.value is u and isinstance(u.ctx,ast.Load)): return None
        attrs.add(p.attr)
    if not attrs: return None
    bound={n.id for n in ast.walk(tree) if isinstance(n,ast.Name)}|{a.arg for n in ast.walk(tree) if isinstance(n,ast.arguments) for a in n.args}
    if attrs & bound: return None
    m=cst.parse_module(src)
    class R(cst.CSTTransformer):
        def leave_Attribute(s,o,u):
            if isinstance(o.value,cst.Name) and o.value.value==mod: return cst.Name(o.attr.value,lpar=u.lpar,rpar=u.rpar)
            return u
        def leave_SimpleStatementLine(s,o,u):
            if len(o.body)==1 and isinstance(o.body[0],cst.Import) and len(o.body[0].names)==1 and isinstance(o.body[0].names[0].name,cst.Name) and o.body[0].names[0].name.value==mod and o.body[0].names[0].asname is None:
                return u.with_changes(body=[cst.ImportFrom(module=cst.Name(mod),names=[cst.ImportAlias(name=cst.Name(a)) for a in sorted(attrs)])])
            return u
    out=m.visit(R()).code
    try: ast.parse(out)
    except SyntaxError: return None
    return out

def layout(src,kind):
    if kind=="lf": return src.encode()
    if kind=="crlf": return src.replace("\r\n","\n").replace("\n","\r\n").encode()
    if kind=="nonl": return src.rstrip("\n").encode()
    if kind=="bom": return b"\xef\xbb\xbf"+src.encode()
    if kind=="tabs":
        out=[]
        for l in src.splitlines(keepends=True):
            m=re.match(r"^((?:    )+)",l)
            out.append("\t"*(len(m.group(1))//4)+l[len(m.group(1)):] if m else l)
        return "".join(out).encode()
    if kind=="unicode": return ("# -*- coding: utf-8 -*-\nNOTE = 'héllo wörld ✓'\n"+src).encode() if not src.startswith("from __future__") else src.encode()
    raise ValueError(kind)

# ---------------------------------------------------------------------------------------------------------------------------
# call / statement layout variants (libcst used as a GENERATOR tool only; oracles never use libcst)
class _TrailingComma(cst.CSTTransformer):
    """f(a, b) -> f(a, b,)   (one-line, magic trailing comma)"""
    def leave_Call(self, o, u):
        if not u.args: return u
        last = u.args[-1]
        if last.star == "**" or isinstance(last.comma, cst.Comma): return u if isinstance(last.comma, cst.Comma) else u.with_changes(args=[*u.args[:-1], last.with_changes(comma=cst.Comma())])
        return u.with_changes(args=[*u.args[:-1], last.with_changes(comma=cst.Comma())])

class _Explode(cst.CSTTransformer):
    """black-style exploded call: one argument per line, trailing comma, closing paren on its own line"""
    def __init__(self, comments=False): self.depth = 0; self.comments = comments
    def visit_Call(self, n): self.depth += 1
    def leave_Call(self, o, u):
        self.depth -= 1
        if not u.args or self.depth > 0: return u      # only outermost calls: nested explosion makes indentation ambiguous
        ind = "    "
        def nl(last=False, k=0):
            return cst.ParenthesizedWhitespace(first_line=cst.TrailingWhitespace(whitespace=cst.SimpleWhitespace("  " if self.comments else ""), comment=cst.Comment(f"# vf arg {k}") if self.comments else None, newline=cst.Newline()),
                                                 indent=True, last_line=cst.SimpleWhitespace("" if last else ind))
        args = []
        for k, a in enumerate(u.args):
            args.append(a.with_changes(comma=cst.Comma(whitespace_after=nl(last=(k == len(u.args) - 1), k=k)), whitespace_after_arg=cst.SimpleWhitespace("")))
        return u.with_changes(args=args, whitespace_before_args=cst.ParenthesizedWhitespace(first_line=cst.TrailingWhitespace(newline=cst.Newline()), indent=True, last_line=cst.SimpleWhitespace(ind)))

def _try(src, transformer):
    try:
        out = cst.parse_module(src).visit(transformer).code
        compile(out, "<layout>", "exec")
        return out if out != src else None
    except Exception:
        return None

def trailing_comma(src): return _try(src, _TrailingComma())
def exploded_calls(src): return _try(src, _Explode())
def exploded_calls_with_comments(src): return _try(src, _Explode(comments=True))

def semicolon_joined(src):
    """join a simple statement line with the next simple statement line of the same indentation: `a = 1; f(a)`"""
    try: tree = ast.parse(src)
    except SyntaxError: return None
    lines = src.splitlines(keepends=True); joined = False
    def simple(n): return not hasattr(n, "body") and n.lineno == n.end_lineno and not isinstance(n, (ast.Import, ast.ImportFrom))
    def walk(body):
        nonlocal joined
        for a, b in zip(body, body[1:]):
            if simple(a) and simple(b) and b.lineno == a.lineno + 1 and a.col_offset == b.col_offset and not joined and "#" not in lines[a.lineno - 1] and not lines[a.lineno - 1].rstrip().endswith("\\"):
                lines[a.lineno - 1] = lines[a.lineno - 1].rstrip("\r\n") + "; " + lines[b.lineno - 1].lstrip(); lines[b.lineno - 1] = ""; joined = True
        for n in body:
            for f in ("body", "orelse", "finalbody"):
                sub = getattr(n, f, None)
                if isinstance(sub, list) and sub and isinstance(sub[0], ast.stmt): walk(sub)
    walk(tree.body)
    if not joined: return None
    out = "".join(lines)
    try: compile(out, "<layout>", "exec")
    except SyntaxError: return None
    return out

def dataflow_chain(src):
    """in every block: the first single-line expression statement E that is followed by another simple statement line becomes `vf_dK = (E)` and the
    next line starts with `vf_dK; ` - consecutive statements with a data dependency, the second sharing its line with what follows"""
    try: tree = ast.parse(src)
    except SyntaxError: return None
    lines = src.splitlines(keepends=True); k = 0
    per_line = collections.Counter(n.lineno for n in ast.walk(tree) if isinstance(n, ast.stmt))
    def simple(n): return not hasattr(n, "body") and n.lineno == n.end_lineno and per_line[n.lineno] == 1 and "#" not in lines[n.lineno - 1] and not lines[n.lineno - 1].rstrip().endswith("\\")
    def walk(body):
        nonlocal k
        for a, b in zip(body, body[1:]):
            if (isinstance(a, ast.Expr) and not isinstance(a.value, (ast.Constant, ast.Yield, ast.YieldFrom, ast.Await)) and simple(a) and simple(b) and not isinstance(b, (ast.Import, ast.ImportFrom, ast.Global, ast.Nonlocal))
                    and b.lineno > a.lineno and a.col_offset == b.col_offset):
                la = lines[a.lineno - 1]; ind_ = la[: a.col_offset]; nl = la[len(la.rstrip("\r\n")):]
                lines[a.lineno - 1] = f"{ind_}vf_d{k} = ({la[a.col_offset:].rstrip().rstrip(';')}){nl}"
                lb = lines[b.lineno - 1]; lines[b.lineno - 1] = lb[: b.col_offset] + f"vf_d{k}; " + lb[b.col_offset:]; k += 1
                break
        for n in body:
            for f in ("body", "orelse", "finalbody", "handlers"):
                sub = getattr(n, f, None)
                if isinstance(sub, list) and sub and isinstance(sub[0], (ast.stmt, ast.ExceptHandler)): walk(sub if isinstance(sub[0], ast.stmt) else [s_ for h in sub for s_ in h.body])
    walk(tree.body)
    if not k: return None
    out = "".join(lines)
    try: compile(out, "<layout>", "exec")
    except SyntaxError: return None
    return out

def paren_multiline(src):
    """every single-line `x = CALL(..)` / `CALL(..)` / `return CALL(..)` statement becomes a parenthesised expression opening and closing on lines of its own:
    x = (
        CALL(..)
    )
    the construct still sits on ONE physical line, the statement around it does not"""
    try: tree = ast.parse(src)
    except SyntaxError: return None
    lines = src.splitlines(keepends=True); n_ = 0
    per_line = collections.Counter(n.lineno for n in ast.walk(tree) if isinstance(n, ast.stmt))
    for n in sorted((x for x in ast.walk(tree) if isinstance(x, (ast.Assign, ast.Expr, ast.Return, ast.AnnAssign))), key=lambda x: -x.lineno):
        v = getattr(n, "value", None)
        if not isinstance(v, ast.Call) or n.lineno != n.end_lineno or per_line[n.lineno] != 1: continue
        l = lines[n.lineno - 1]; body = l.rstrip("\r\n"); nl = l[len(body):] or "\n"
        if "#" in body or body.rstrip().endswith(("\\", ";")) or v.end_col_offset != len(body.encode("utf-8")) or not body.isascii(): continue
        ind = body[: n.col_offset]
        lines[n.lineno - 1] = f"{body[: v.col_offset]}({nl}{ind}    {body[v.col_offset:]}{nl}{ind}){nl}"; n_ += 1
    if not n_: return None
    out = "".join(lines)
    try: compile(out, "<layout>", "exec")
    except SyntaxError: return None
    return out

def operator_linebreak(src):
    """inside parentheses / brackets, a physical line break after every comparison operator (`(a ==\n        b)`): legal there, a syntax error once the parentheses are gone"""
    import io, tokenize
    try: toks = list(tokenize.generate_tokens(io.StringIO(src).readline))
    except (tokenize.TokenError, IndentationError, SyntaxError): return None
    lines = src.splitlines(keepends=True); depth = 0; cuts = []
    for t in toks:
        if t.type == tokenize.OP:
            if t.string in "([{": depth += 1
            elif t.string in ")]}": depth -= 1
            elif depth > 0 and t.string in ("==", "!=", "<", ">", "<=", ">="): cuts.append(t.end)
    if not cuts: return None
    for (ln, col) in sorted(cuts, reverse=True):
        l = lines[ln - 1]
        if not l[:col].isascii(): continue
        ind = len(l) - len(l.lstrip(" "))
        lines[ln - 1] = l[:col] + "\n" + " " * (ind + 8) + l[col:].lstrip(" ")
    out = "".join(lines)
    if out == src: return None
    try: compile(out, "<layout>", "exec")
    except SyntaxError: return None
    return out

def compare_multiline(src):
    """every single-line comparison is put into parentheses of its own with a line break after each comparison operator: `not a == b` -> `not (a ==\n        b)`"""
    try: t = ast.parse(src)
    except SyntaxError: return None
    lines = src.splitlines(keepends=True)
    nodes = sorted((n for n in ast.walk(t) if isinstance(n, ast.Compare) and n.lineno == n.end_lineno and lines[n.lineno - 1].isascii()), key=lambda n: (n.lineno, n.col_offset, -n.end_col_offset))
    done = []; edits = []
    for n in nodes:
        if any(d.lineno == n.lineno and d.col_offset <= n.col_offset and n.end_col_offset <= d.end_col_offset for d in done): continue      # inside one already taken
        done.append(n)
        seg = lines[n.lineno - 1][n.col_offset:n.end_col_offset]; ind = len(lines[n.lineno - 1]) - len(lines[n.lineno - 1].lstrip(" "))
        # break after the operator that precedes each comparator
        pieces = []; pos = n.col_offset
        for c in n.comparators:
            pieces.append(lines[n.lineno - 1][pos:c.col_offset].rstrip(" ")); pos = c.col_offset
        pieces.append(lines[n.lineno - 1][pos:n.end_col_offset])
        edits.append((n.lineno, n.col_offset, n.end_col_offset, "(" + ("\n" + " " * (ind + 8)).join(pieces) + ")"))
    if not edits: return None
    for ln, a, b, text in sorted(edits, reverse=True):
        l = lines[ln - 1]; lines[ln - 1] = l[:a] + text + l[b:]
    out = "".join(lines)
    try: compile(out, "<layout>", "exec")
    except SyntaxError: return None
    return out

def backslash_continued(src):
    """break the first long-enough simple assignment / expression line after its first ' = ' or '(' ... conservative: only `x = expr` lines"""
    lines = src.splitlines(keepends=True)
    for i, l in enumerate(lines):
        m = re.match(r"^(\s*)([A-Za-z_][\w.]*) = (\S.*)$", l.rstrip("\r\n"))
        if m and not m.group(3).startswith(("'", '"', "(", "[", "{")) and "#" not in l:
            new = lines[:]; new[i] = f"{m.group(1)}{m.group(2)} = \\\n{m.group(1)}    {m.group(3)}\n"
            out = "".join(new)
            try: compile(out, "<layout>", "exec"); return out
            except SyntaxError: continue
    return None

def form_feed(src):
    return "\x0c\n" + src if not src.startswith("from __future__") else None

CALL_LAYOUTS = {"trailing-comma": trailing_comma, "exploded": exploded_calls, "exploded-comments": exploded_calls_with_comments, "semicolon": semicolon_joined, "backslash": backslash_continued, "formfeed": form_feed, "dataflow": dataflow_chain, "paren-multiline": paren_multiline, "operator-linebreak": operator_linebreak, "compare-multiline": compare_multiline}

class _Hanging(cst.CSTTransformer):
    """hanging indent: break after the first argument only -> `f(a,\\n    b, c)`; the last line carries the closing parenthesis"""
    def __init__(self): self.depth = 0
    def visit_Call(self, n): self.depth += 1
    def leave_Call(self, o, u):
        self.depth -= 1
        if len(u.args) < 2 or self.depth > 0: return u
        first = u.args[0].with_changes(comma=cst.Comma(whitespace_after=cst.ParenthesizedWhitespace(first_line=cst.TrailingWhitespace(newline=cst.Newline()), indent=True, last_line=cst.SimpleWhitespace("        "))))
        return u.with_changes(args=[first, *u.args[1:]])
def hanging_calls(src): return _try(src, _Hanging())
CALL_LAYOUTS["hanging"] = hanging_calls

def nonascii_prefix(src, text="vf_u = 'é✓'; "):
    """put a non-ASCII string statement in front of every simple statement that contains a call (same physical line)"""
    try: tree = ast.parse(src)
    except SyntaxError: return None
    lines = src.splitlines(keepends=True); done = 0
    targets = []
    for n in ast.walk(tree):
        if isinstance(n, ast.stmt) and not hasattr(n, "body") and not isinstance(n, (ast.Import, ast.ImportFrom, ast.Global, ast.Nonlocal)) and any(isinstance(x, ast.Call) for x in ast.walk(n)):
            targets.append((n.lineno, n.col_offset))
    for ln, col in sorted(set(targets), reverse=True):
        l = lines[ln - 1]
        if l[:col].strip(): continue      # not the first statement on its line
        lines[ln - 1] = l[:col] + text + l[col:]; done += 1
    if not done: return None
    out = "".join(lines)
    try: compile(out, "<nonascii>", "exec")
    except SyntaxError: return None
    return out

def nonascii_last_argument(src):
    """append a keyword argument with a non-ASCII value to every outermost call that already has arguments (lands on the call's last line)"""
    try: tree = ast.parse(src)
    except SyntaxError: return None
    lines = src.splitlines(keepends=True); starts = [0]
    for l in lines: starts.append(starts[-1] + len(l))
    def off(line, col): return starts[line - 1] + len(lines[line - 1].encode("utf-8")[:col].decode("utf-8", "ignore"))
    edits = []
    for n in ast.walk(tree):
        if isinstance(n, ast.Call) and (n.args or n.keywords) and not any(k.arg is None for k in n.keywords):
            close = off(n.end_lineno, n.end_col_offset) - 1
            if src[close] != ")": continue
            j = close - 1
            while j >= 0 and src[j] in " \t\r\n": j -= 1
            edits.append((j + 1, " vf_note='é✓'," if src[j] == "," else ", vf_note='é✓'"))
    if not edits: return None
    out = src
    for pos, ins in sorted(edits, reverse=True): out = out[:pos] + ins + out[pos:]
    try: compile(out, "<nonascii>", "exec")
    except SyntaxError: return None
    return out

def second_use(src):
    """append one more (harmless) use of every name the file's imports bind: a codemod that drops or renames an import must keep these resolvable"""
    try: tree = ast.parse(src)
    except SyntaxError: return None
    names = []
    for n in tree.body:
        if isinstance(n, ast.Import):
            for a in n.names: names.append(a.asname or a.name.split(".")[0])
        elif isinstance(n, ast.ImportFrom) and n.module != "__future__":
            for a in n.names:
                if a.name != "*": names.append(a.asname or a.name)
    names = list(dict.fromkeys(names))
    if not names: return None
    tail = "".join(f"vf_keep_{i} = {nm}\n" for i, nm in enumerate(names))
    return src + ("" if src.endswith("\n") else "\n") + tail

def twice(src):
    """the seed body twice in one file (two sites of the same trigger)"""
    head, body = split_head(src)
    if not body.strip(): return None
    if not body.endswith("\n"): body += "\n"
    out = head + body + "\nVF_BETWEEN_SITES = 0\n" + body
    try: compile(out, "<twice>", "exec")
    except SyntaxError: return None
    return out

def pair(src_a, src_b):
    """two DIFFERENT seeds of one codemod in one file (their import blocks merged): the kinds of site a codemod knows meet in one module"""
    ha, ba = split_head(src_a); hb, bb = split_head(src_b)
    if not ba.strip() or not bb.strip() or ba.strip() == bb.strip(): return None
    head = "".join(dict.fromkeys((ha + hb).splitlines(keepends=True)))
    if head and not head.endswith("\n"): head += "\n"
    if not ba.endswith("\n"): ba += "\n"
    out = head + ba + "\nVF_BETWEEN_SEEDS = 0\n" + bb
    try: compile(out, "<pair>", "exec")
    except SyntaxError: return None
    return out

def local_duplicate_import(src):
    """every module-level import of the seed is repeated, unused, inside a function of its own: the same import written twice in different scopes, one of them dead"""
    try: t = ast.parse(src)
    except SyntaxError: return None
    imps = [ast.get_source_segment(src, n) for n in t.body if isinstance(n, (ast.Import, ast.ImportFrom)) and not (isinstance(n, ast.ImportFrom) and (n.module == "__future__" or any(a.name == "*" for a in n.names)))]
    imps = [i for i in imps if i and "\n" not in i]
    if not imps: return None
    out = src + ("" if src.endswith("\n") else "\n") + "\ndef vf_dup_imports():\n" + "".join(f"    {i}\n" for i in imps) + "    return 1\n"
    try: compile(out, "<dup>", "exec")
    except SyntaxError: return None
    return out

def twice_defs(src):
    """the seed body in two different functions: each site's local bindings live in their own scope, so a binding lost at one site is not masked by the other"""
    head, body = split_head(src)
    if not body.strip(): return None
    if not body.endswith("\n"): body += "\n"
    ind = textwrap.indent(body, "    ")
    out = head + "def vf_site_a(param_a=None):\n" + ind + "\nVF_BETWEEN_SITES = 0\n\ndef vf_site_b(param_a=None):\n" + ind
    try: compile(out, "<twice-defs>", "exec")
    except SyntaxError: return None
    return out

class _ReverseKeywords(cst.CSTTransformer):
    """f(a, k1=1, k2=2) -> f(a, k2=2, k1=1): the keyword arguments of every call in reverse order (positional and */** arguments stay)"""
    def leave_Call(self, o, u):
        kws = [a for a in u.args if a.keyword is not None and a.star == ""]
        if len(kws) < 2: return u
        rev = list(reversed(kws)); it = iter(rev); out = []
        for a in u.args:
            if a.keyword is not None and a.star == "":
                b = next(it); out.append(b.with_changes(comma=a.comma))      # keep the separators where they were
            else: out.append(a)
        return u.with_changes(args=out)
def keywords_reversed(src): return _try(src, _ReverseKeywords())
CALL_LAYOUTS["keywords-reversed"] = keywords_reversed

def added_imports(before: str, after: str):
    """import statements present in `after` but not in `before` (module level, as source lines) - used as a GENERATOR hint only"""
    def imps(s):
        try: t = ast.parse(s)
        except SyntaxError: return set()
        return {ast.unparse(n) for n in t.body if isinstance(n, (ast.Import, ast.ImportFrom)) and not (isinstance(n, ast.ImportFrom) and n.module == "__future__")}
    return sorted(imps(after) - imps(before))

def local_decoy(src, imports):
    """another function that imports, LOCALLY, exactly what the codemod is known to add at module level: a codemod that believes the module
    already has the import must not skip adding it"""
    if not imports: return None
    decoy = "def vf_decoy():\n" + "".join(f"    {i}\n" for i in imports) + "    return 0\n\n"
    head, body = split_head(src)
    out = head + decoy + body
    try: compile(out, "<decoy>", "exec")
    except SyntaxError: return None
    return out

def mixed_imports(src):
    """one file reaching the same module through different bindings: the seed as written, its `import m as m_al` form and its `from m import f` form, one after the other"""
    parts = [src]
    for fn in (alias_import, from_import):
        try: v = fn(src)
        except Exception: v = None
        if v and v != src: parts.append(v)
    if len(parts) < 2: return None
    heads, bodies = [], []
    for p_ in parts:
        h, b = split_head(p_); heads.append(h); bodies.append(b if b.endswith("\n") else b + "\n")
    hl = []
    for h in heads:
        for l in h.splitlines(keepends=True):
            if l not in hl or not l.strip(): hl.append(l)
    out = "".join(hl) + "\nVF_MIXED = 0\n".join(bodies)
    try: compile(out, "<mixed>", "exec")
    except SyntaxError: return None
    return out

def legacy_encoding(src, codec="cp1252"):
    """the same program in a declared legacy source encoding (PEP 263 cookie) with non-ASCII text in a comment and a string"""
    if src.startswith("from __future__") or not src.isascii(): return None
    text = f"# -*- coding: {codec} -*-\n# Ángel résumé\nVF_LEGACY = 'café'\n" + src
    try:
        data = text.encode(codec); compile(data, "<legacy>", "exec")
    except (UnicodeEncodeError, SyntaxError, ValueError): return None
    return data
