"""prototype generators: contexts, import restyling, layouts (throwaway)"""
import ast, textwrap, re
import libcst as cst

def split_head(src):
    tree=ast.parse(src); lines=src.splitlines(keepends=True); k=0
    for node in tree.body:
        if isinstance(node,(ast.Import,ast.ImportFrom)): k=node.end_lineno
        elif isinstance(node,ast.Expr) and isinstance(node.value,ast.Constant) and isinstance(node.value.value,str) and k==0: k=node.end_lineno
        else: break
    return "".join(lines[:k]),"".join(lines[k:])

def ctx(src,kind):
    head,body=split_head(src)
    if not body.strip(): return None
    if not body.endswith("\n"): body+="\n"
    ind=lambda s,n=1: textwrap.indent(s,"    "*n)
    if kind=="module": return src
    if kind=="def": return head+"def wrapper_fn(param_a=None):\n"+ind(body)
    if kind=="async": return head+"async def wrapper_fn(param_a=None):\n"+ind(body)
    if kind=="method": return head+"class Wrapper:\n    attr = 1\n\n    def method(self, param_a=None):\n"+ind(body,2)
    if kind=="nested": return head+"def wrapper_fn(flag=True):\n    try:\n        if flag:\n"+ind(body,3)+"    finally:\n        pass\n"
    if kind=="prelude": return head+"".join(f"CONST_{i} = {i}\n" for i in range(7))+"\n"+body
    raise ValueError(kind)

class _Alias(cst.CSTTransformer):
    """import m -> import m as m_al ; rename Name(m) loads"""
    def __init__(self,mod,alias): self.mod=mod; self.alias=alias; self.done=False
    def leave_Import(self,o,u):
        names=[]
        for a in u.names:
            if isinstance(a.name,cst.Name) and a.name.value==self.mod and a.asname is None:
                names.append(a.with_changes(asname=cst.AsName(name=cst.Name(self.alias),whitespace_before_as=cst.SimpleWhitespace(" "),whitespace_after_as=cst.SimpleWhitespace(" ")))); self.done=True
            else: names.append(a)
        return u.with_changes(names=names)
    def leave_Name(self,o,u):
        return u
def alias_import(src):
    """pick first 'import m' (simple name) and alias it, renaming uses m.x -> al.x"""
    try: tree=ast.parse(src)
    except SyntaxError: return None
    mods=[a.name for n in tree.body if isinstance(n,ast.Import) for a in n.names if a.asname is None and "." not in a.name]
    if not mods: return None
    mod=mods[0]; al=mod+"_al"
    # names bound elsewhere to mod? skip if assigned
    for n in ast.walk(tree):
        if isinstance(n,ast.Name) and n.id==mod and isinstance(n.ctx,(ast.Store,ast.Del)): return None
    m=cst.parse_module(src)
    class R(cst.CSTTransformer):
        def __init__(s): s.in_import=0
        def visit_Import(s,n): s.in_import+=1
        def leave_Import(s,o,u):
            s.in_import-=1
            names=[a.with_changes(asname=cst.AsName(name=cst.Name(al))) if (isinstance(a.name,cst.Name) and a.name.value==mod and a.asname is None) else a for a in u.names]
            return u.with_changes(names=names)
        def visit_ImportFrom(s,n): s.in_import+=1
        def leave_ImportFrom(s,o,u): s.in_import-=1; return u
        def visit_Attribute(s,n): return True
        def leave_Attribute(s,o,u):
            return u
        def leave_Name(s,o,u):
            if s.in_import==0 and u.value==mod: return u.with_changes(value=al)
            return u
        def leave_Arg(s,o,u):
            # keyword names are Name nodes too: restore
            if o.keyword is not None and o.keyword.value==mod: return u.with_changes(keyword=o.keyword)
            return u
    out=m.visit(R()).code
    # attribute attr names equal to mod would be renamed wrongly: verify by ast that only Name loads changed
    try: ast.parse(out)
    except SyntaxError: return None
    return out

def from_import(src):
    """import m ; m.f(...) -> from m import f ; f(...)  (all uses must be m.<attr> with single-level attr)"""
    try: tree=ast.parse(src)
    except SyntaxError: return None
    mods=[a.name for n in tree.body if isinstance(n,ast.Import) and len(n.names)==1 for a in n.names if a.asname is None and "." not in a.name]
    if not mods: return None
    mod=mods[0]
    uses=[n for n in ast.walk(tree) if isinstance(n,ast.Name) and n.id==mod]
    attrs=set(); parents={}
    for p in ast.walk(tree):
        for c in ast.iter_child_nodes(p): parents[c]=p
    for u in uses:
        p=parents.get(u)
        if not (isinstance(p,ast.Attribute) and p.value is u and isinstance(u.ctx,ast.Load)): return None
        attrs.add(p.attr)
    if not attrs: return None
    bound={n.id for n in ast.walk(tree) if isinstance(n,ast.Name)}|{a.arg for n in ast.walk(tree) if isinstance(n,ast.arguments) for a in n.args}
    if attrs & bound: return None
    m=cst.parse_module(src)
    class R(cst.CSTTransformer):
        def leave_Attribute(s,o,u):
            if isinstance(o.value,cst.Name) and o.value.value==mod: return cst.Name(o.attr.value,lpar=u.lpar,rpar=u.rpar)
            return u
        def leave_SimpleStatementLine(s,o,u):
            if len(o.body)==1 and isinstance(o.body[0],cst.Import) and len(o.body[0].names)==1 and isinstance(o.body[0].names[0].name,cst.Name) and o.body[0].names[0].name.value==mod and o.body[0].names[0].asname is None:
                return u.with_changes(body=[cst.ImportFrom(module=cst.Name(mod),names=[cst.ImportAlias(name=cst.Name(a)) for a in sorted(attrs)])])
            return u
    out=m.visit(R()).code
    try: ast.parse(out)
    except SyntaxError: return None
    return out

def layout(src,kind):
    if kind=="lf": return src.encode()
    if kind=="crlf": return src.replace("\r\n","\n").replace("\n","\r\n").encode()
    if kind=="nonl": return src.rstrip("\n").encode()
    if kind=="bom": return b"\xef\xbb\xbf"+src.encode()
    if kind=="tabs":
        out=[]
        for l in src.splitlines(keepends=True):
            m=re.match(r"^((?:    )+)",l)
            out.append("\t"*(len(m.group(1))//4)+l[len(m.group(1)):] if m else l)
        return "".join(out).encode()
    if kind=="unicode": return ("# -*- coding: utf-8 -*-\nNOTE = 'héllo wörld ✓'\n"+src).encode() if not src.startswith("from __future__") else src.encode()
    raise ValueError(kind)
