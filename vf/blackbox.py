"""PROTOTYPE: run the unmodified console script (optionally under strace) in parallel."""
import concurrent.futures as cf, os, shutil, subprocess, tempfile, base64
from vf import env

def run_cli(argv, files=None, extra_env=None, timeout=300, setup=None, keep=False, strace=False):
    d = tempfile.mkdtemp(prefix="vf_bb_")
    proj = os.path.join(d, "proj"); os.makedirs(proj)
    for rel, data in (files or {}).items():
        p = os.path.join(proj, rel); os.makedirs(os.path.dirname(p), exist_ok=True)
        open(p, "wb").write(data)
    if setup: setup(d)
    e = env.child_env(extra_env, scratch_home=os.path.join(d, "home")); os.makedirs(e["HOME"], exist_ok=True)
    e["TMPDIR"] = os.path.join(d, "tmp"); os.makedirs(e["TMPDIR"], exist_ok=True)
    args = [a.replace("{proj}", proj).replace("{dir}", d) for a in argv]
    cmd = [os.path.join(env.VENV_BIN, "codemodder")] + args
    if strace:
        cmd = ["strace", "-f", "-qq", "-e", "trace=openat,open,creat,unlink,unlinkat,rename,renameat,renameat2,mkdir,mkdirat,rmdir,truncate,ftruncate,chmod,fchmodat,symlink,symlinkat,link,linkat,utimensat", "-o", os.path.join(d, "strace.out")] + cmd
    try:
        r = subprocess.run(cmd, env=e, capture_output=True, text=True, timeout=timeout, cwd=d)
        out = {"rc": r.returncode, "stdout": r.stdout[-4000:], "stderr": r.stderr[-4000:], "dir": d, "status": "ok"}
    except subprocess.TimeoutExpired:
        out = {"rc": None, "status": "timeout", "dir": d}
    out["exists"] = {k: os.path.exists(k.replace("{dir}", d)) for k in []}
    return out

def pmap(fn, items, workers=14):
    with cf.ThreadPoolExecutor(workers) as ex:
        return list(ex.map(fn, items))

import re as _re
_MUT = _re.compile(r'^\d*\s*(openat|open|creat|unlink|unlinkat|rename|renameat|renameat2|mkdir|mkdirat|rmdir|truncate|chmod|fchmodat|symlink|symlinkat|link|linkat|utimensat)\((.*)$')
def strace_mutations(path, root, cwd):
    """file-system mutation syscalls (H-sys) whose path argument resolves under `root`; reads an `strace -f -o` log"""
    out = []; n = 0
    root = os.path.realpath(root)
    try: lines = open(path, errors="replace").read().splitlines()
    except OSError: return None, 0
    for l in lines:
        m = _MUT.match(l.strip())
        if not m: continue
        n += 1
        name, rest = m.groups()
        if " = -1 " in l: continue                      # failed calls changed nothing
        paths = _re.findall(r'"((?:[^"\\]|\\.)*)"', rest)
        if name in ("openat", "open"):
            if not _re.search(r"O_WRONLY|O_RDWR|O_CREAT|O_TRUNC|O_APPEND", rest): continue
            paths = paths[:1]
        for p in paths:
            rp = os.path.realpath(p if os.path.isabs(p) else os.path.join(cwd, p))
            if rp == root or rp.startswith(root + os.sep): out.append({"syscall": name, "path": rp, "line": l.strip()[:200]})
    return out, n
