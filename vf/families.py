"""Generated program families for the refactoring codemods (closed, deterministic programs that print what they compute).
Used by C08 (differential execution) and, as extra inputs, by the shared grid of C01/C02/C03/C07 (parse / scope / diff / fixed point).
A case is {cid, shape, vclass, src, template}; shape and value class are the labels a mechanism key may be built from."""
import itertools, random
PX = "pixee:python/"

def rows_src(rows):
    """source text of the value table (repr() is not source for classes and NaN)"""
    if isinstance(rows, str): return rows
    def one(v):
        if isinstance(v, type): return v.__name__
        if isinstance(v, float) and v != v: return "float('nan')"
        if isinstance(v, tuple): return "(" + ", ".join(one(x) for x in v) + ("," if len(v) == 1 else "") + ")"
        if isinstance(v, list): return "[" + ", ".join(one(x) for x in v) + "]"
        if isinstance(v, set): return "{" + ", ".join(one(x) for x in sorted(v)) + "}" if v else "set()"
        return repr(v)
    return one(list(rows))

def driver(sig, body_expr, rows, pre=""):
    return f"{pre}def f({sig}):\n    return {body_expr}\nROWS = {rows_src(rows)}\nfor r in ROWS:\n    try: print(repr(f(*r)))\n    except Exception as e: print(type(e).__name__)\n"

def C(cid, shape, vclass, src, template=None):
    return {"cid": PX + cid, "shape": shape, "vclass": vclass, "src": src, "template": template or shape}

# ---------------------------------------------------------------- combine-startswith-endswith / combine-isinstance-issubclass
BOOL_TEMPLATES = {  # name -> (format, shape class)
    "A_or_B": ("{0} or {1}", "pure-or"), "A_or_B_or_C": ("{0} or {1} or {2}", "pure-or"), "c_or_A_or_B": ("c or {0} or {1}", "pure-or"), "A_or_c_or_B": ("{0} or c or {1}", "or-with-operand-between"),
    "paren(A_or_B)_and_c": ("({0} or {1}) and c", "parenthesised-or"), "c_and_paren(A_or_B)": ("c and ({0} or {1})", "parenthesised-or"), "not_paren(A_or_B)": ("not ({0} or {1})", "parenthesised-or"),
    "A_or_B_and_c": ("{0} or {1} and c", "or-mixed-with-and"), "c_and_A_or_B": ("c and {0} or {1}", "or-mixed-with-and"), "A_or_B_and_C": ("{0} or {1} and {2}", "or-mixed-with-and"), "A_and_c_or_B": ("{0} and c or {1}", "or-mixed-with-and"),
    "not_A_or_B": ("not {0} or {1}", "or-with-not-operand"), "ternary": ("{0} or {1} if c else d", "pure-or"), "in-list": ("[{0} or {1}, c][0]", "pure-or"), "A_or_B_or_d": ("{0} or {1} or d", "pure-or"),
}
def fam_startswith(rnd, full):
    calls = ["a.startswith(x)", "a.startswith(y)", "a.startswith('a')", "a.startswith(t)", "a.startswith(('a','b'))", "b.startswith(x)", "a.endswith(x)", "a.endswith(y)", "a.startswith(f'{x}')", "a.endswith(t)"]
    plain = [("abc", "abc", "a", "b", "zz", True, False), ("abc", "xbc", "z", "b", "q", False, True), ("", "", "", "q", "", True, True), ("ba", "ab", "a", "b", "b", True, True), ("ab", "ba", "b", "a", "a", False, False)]
    tup = [("abc", "abc", "a", "b", ("a", "z"), True, False), ("abc", "xbc", "z", "b", ("q",), False, True), ("zz", "", "q", "r", ("z", "q"), True, True)]
    # operands whose literal contents are spelled like an identifier in scope (a name and a string are different things even when they look alike); in each row only one of the two matches
    alike = ["a.startswith(x)", "a.startswith('x')", "a.startswith(y)", "a.startswith(\"y\")", "a.startswith(('x', 'q'))", "a.startswith((y, 'q'))", "a.endswith('x')", "a.endswith(x)"]
    alike_rows = [("xbc", "", "zz", "ww", (), True, False), ("zzx", "", "zz", "x", (), False, True), ("ybc", "", "y", "kk", (), True, True), ("kkd", "", "nn", "kk", (), False, False), ("qx", "", "q", "x", (), True, False)]
    for tn in (("A_or_B", "A_or_B_or_C", "paren(A_or_B)_and_c", "A_or_B_or_d") if not full else tuple(BOOL_TEMPLATES)):
        t, shape = BOOL_TEMPLATES[tn]; n = t.count("{"); combos = list(itertools.permutations(alike, n)); step = max(1, len(combos) // (60 if full else 24))
        for cs in combos[rnd.randrange(step):: step]:
            yield C("combine-startswith-endswith", shape, "name-spelled-like-literal", driver("a, b, x, y, t, c, d", t.format(*cs), alike_rows), tn)
    for tn, (t, shape) in BOOL_TEMPLATES.items():
        n = t.count("{"); combos = list(itertools.permutations(calls, n))
        step = max(1, len(combos) // (40 if full else 10))
        for cs in combos[rnd.randrange(step):: step]:
            uses_t = any("(t)" in c for c in cs)
            recv = "different-receivers" if len({c.split(".")[0] for c in cs}) > 1 else "same-receiver"
            meth = "mixed-methods" if len({c.split(".")[1].split("(")[0] for c in cs}) > 1 else "same-method"
            yield C("combine-startswith-endswith", shape, "tuple-valued-name" if uses_t else "plain", driver("a, b, x, y, t, c, d", t.format(*cs), tup if uses_t else plain), tn)
def fam_isinstance(rnd, full):
    calls = ["isinstance(a, int)", "isinstance(a, str)", "isinstance(a, (float, bytes))", "isinstance(a, T2)", "isinstance(b, int)", "issubclass(a, int)", "issubclass(a, str)", "isinstance(a, bool)"]
    rows = [(1, "s", True, False), ("s", 1, False, True), (1.5, None, True, True), (int, str, True, True), (bool, 1, False, True), (True, 2, False, False)]
    for tn, (t, shape) in BOOL_TEMPLATES.items():
        n = t.count("{"); combos = list(itertools.permutations(calls, n)); step = max(1, len(combos) // (30 if full else 8))
        for cs in combos[rnd.randrange(step):: step]:
            yield C("combine-isinstance-issubclass", shape, "tuple-valued-name" if any("T2" in c for c in cs) else "plain", driver("a, b, c, d", t.format(*cs), rows, pre="T2 = (int, str)\n"), tn)

# ---------------------------------------------------------------- invert-boolean-check
def fam_invert(rnd, full):
    ops = ["==", "!=", "<", ">", "<=", ">=", "in", "not in", "is", "is not"]
    VAL = {"plain": [(1, 2, 3), (2, 2, 2), (3, 2, 1), (1, 1, 2)], "containers": [(1, [1, 2], [[1, 2]]), ("a", "abc", ["abc"]), (2, (1,), ((1,),)), (3, [3], [])], "unordered": [(float("nan"), 1.0, 2.0), ({1}, {1, 2}, {3}), ({1, 2}, {1}, {1})],
           "nonbool": [(1, 0, 2), ("x", "", None), ([], [0], 1)], "identity": [(None, None, 1), (1, None, 1), ((), (), 1)]}
    opname = lambda o: o.replace(" ", "_")
    for o in ops:
        classes = ("plain", "unordered") if o in ("<", ">", "<=", ">=") else (("containers",) if o in ("in", "not in") else (("plain", "identity") if o in ("is", "is not") else ("plain",)))
        for cls in classes:
            kind = {"in": "membership", "not in": "membership", "is": "identity", "is not": "identity"}.get(o, "ordering" if o in ("<", ">", "<=", ">=") else "equality")
            yield C("invert-boolean-check", f"single-comparison/{kind}", cls, driver("a, b, c", f"not a {o} b", VAL[cls]), f"not_a_{opname(o)}_b")
            yield C("invert-boolean-check", f"single-comparison/{kind}", cls, driver("a, b, c", f"bool(c) and not a {o} b", VAL[cls]), f"c_and_not_a_{opname(o)}_b")
            yield C("invert-boolean-check", f"single-comparison/{kind}", cls, driver("a, b, c", f"not (a {o} b)", VAL[cls]), f"not_paren_a_{opname(o)}_b")
    chain_ops = ["==", "<", "!=", ">=", "in", "is"] if full else ["==", "<", "!="]
    for o1, o2 in itertools.product(chain_ops, repeat=2):
        rows = VAL["plain"] if "in" not in (o1, o2) else [(1, 1, [1]), (1, 2, [2]), (2, 2, [3])]
        yield C("invert-boolean-check", "comparison-chain", "plain", driver("a, b, c", f"not a {o1} b {o2} c", rows), f"chain_{opname(o1)}_{opname(o2)}")
    for t in ("is True", "is False", "== True", "== False", "is not True", "!= False"):
        sh = "comparison-with-bool-literal/" + ("identity" if "is" in t else "equality")
        yield C("invert-boolean-check", sh, "bool", driver("a, b, c", f"not a {t}", [(True, 0, 0), (False, 0, 0)]), "not_a_" + opname(t))
        yield C("invert-boolean-check", sh, "nonbool", driver("a, b, c", f"not a {t}", VAL["nonbool"]), "not_a_" + opname(t))

    # the whole `not ...` expression is itself a parenthesised operand of an enclosing operator: the parentheses belong to the `not` node, not to the comparison
    ENCL = {"eq-right": "({0}) == c", "eq-left": "c == ({0})", "plus": "({0}) + 1", "times": "2 * ({0})", "neg": "-({0})", "in": "({0}) in [c]", "attr": "({0}).real", "is": "({0}) is c", "sub": "[10, 20][{0}]", "not-not": "not ({0})"}
    encl_ops = ops if full else ["==", "<", "in", "is not"]
    for o in encl_ops:
        rows = [(1, [1, 2], True), (3, [1, 2], False), (1, [3], True), ("a", "abc", False)] if "in" in o else [(1, 2, True), (2, 2, True), (3, 2, False), (1, 1, False)]
        for en, et in ENCL.items():
            yield C("invert-boolean-check", "not-as-operand/" + en, "plain", driver("a, b, c", et.format(f"not a {o} b"), rows), f"encl_{en}_{opname(o)}")
    for t in ("is True", "is False"):
        for en, et in ENCL.items():
            yield C("invert-boolean-check", "not-as-operand/" + en, "bool-literal", driver("a, b, c", et.format(f"not a {t}"), [(True, 0, True), (False, 0, True), (True, 0, False), (False, 0, False)]), f"encl_{en}_{opname(t)}")

# ---------------------------------------------------------------- use-generator / use-set-literal / walrus / misc
def fam_generator(rnd, full):
    for fn in ("any", "all", "sum", "min", "max", "sorted", "list", "tuple", "set", "frozenset", "str.join"):
        call = (lambda inner: f"', '.join({inner})") if fn == "str.join" else (lambda inner, fn=fn: f"{fn}({inner})")
        elem = "str(x * 2)" if fn == "str.join" else "x * 2"
        yield C("use-generator", f"call/{fn}", "pure", f"def f(xs):\n    return {call(f'[{elem} for x in xs]')}\nfor xs in ([1, 2, 3], [0, 0], [5]):\n    print(f(xs))\n")
        gelem = "str(g(x))" if fn == "str.join" else "g(x)"
        yield C("use-generator", f"call/{fn}", "side-effecting-element", f"def g(x):\n    print('eval', x)\n    return x\ndef f(xs):\n    return {call(f'[{gelem} for x in xs]')}\nfor xs in ([1, 0, 3], [0, 2], [5]):\n    print(f(xs))\n")
    yield C("use-generator", "call/any", "shadowed-builtin", "def any(x):\n    return type(x).__name__\nprint(any([y for y in range(3)]))\n")
    yield C("use-generator", "call/sum", "extra-argument", "print(sum([x for x in range(4)], 10))\n")
    # the same name is the builtin in one scope and something else in another (parameter default, local rebinding, nested def) - in either source order
    for fn, other in (("sum", "len"), ("any", "list"), ("max", "len"), ("sorted", "len")):
        use = f"{fn}([v * 2 for v in values])"
        builtin_fn = f"def total(values):\n    return {use}\n"
        shadow_param = f"def size(values, {fn}={other}):\n    return {use}\n"
        shadow_local = f"def size2(values):\n    {fn} = {other}\n    return {use}\n"
        tail = "print(repr(total([1, 2, 3])), repr(size([1, 2, 3])), repr(size2([4, 5])))\n"
        yield C("use-generator", f"call/{fn}", "builtin-then-shadowed-in-other-scope", builtin_fn + shadow_param + shadow_local + tail)
        yield C("use-generator", f"call/{fn}", "shadowed-then-builtin-in-other-scope", shadow_param + shadow_local + builtin_fn + tail)
    yield C("use-set-literal", "set-call", "builtin-then-shadowed-in-other-scope", "def a():\n    return set([3, 1, 2])\ndef b(set=sorted):\n    return set([3, 1, 2])\nprint(sorted(a()), b())\n")
    yield C("use-set-literal", "set-call", "shadowed-then-builtin-in-other-scope", "def b(set=sorted):\n    return set([3, 1, 2])\ndef a():\n    return set([3, 1, 2])\nprint(sorted(a()), b())\n")

def fam_misc(rnd, full):
    yield C("use-set-literal", "set-call", "plain", "print(sorted(set([3, 1, 2, 1])))\nprint(set([]))\nx = set(['a'])\nx.add('b')\nprint(sorted(x))\nprint(set(()))\nprint(sorted(set((1, 2))))\n")
    yield C("use-set-literal", "set-call", "shadowed-set", "def set(x):\n    return 'shadow'\nprint(set([1, 2]))\n")
    yield C("use-set-literal", "set-call", "unhashable-element", "try:\n    print(set([[1], [2]]))\nexcept TypeError:\n    print('TypeError')\n")
    for used in (True, False):
        for test in ("x", "not x", "x is None", "x == 3", "x != 3", "x is not None", "(x)"):
            for scope in ("function", "module"):
                body = f"x = val()\nif {test}:\n    print('yes')\nelse:\n    print('no')\n" + ("print('x', x)\n" if used else "")
                pre = "def val():\n    print('val called')\n    return 3\n"
                src = pre + ("def f():\n" + "".join("    " + l + "\n" for l in body.splitlines()) + "f()\n" if scope == "function" else body)
                yield C("use-walrus-if", f"assign-then-if/{scope}", "used-later" if used else "unused", src, test.replace(" ", "_"))
    yield C("use-walrus-if", "assign-then-if/class-body", "plain", "class K:\n    x = len('abc')\n    if x:\n        y = x\nprint(K.x, K.y)\n")
    yield C("use-walrus-if", "assign-then-if/augmented-after", "plain", "def f(v):\n    n = v.get('k')\n    if n is None:\n        n = 0\n    n += 1\n    return n\nprint(f({}), f({'k': 4}))\n")
    yield C("remove-unnecessary-f-str", "fstring", "plain", "print(f'hello')\nprint(f\"a\" 'b')\nprint(f'{{braces}}')\nprint(rf'raw\\n')\nprint(f'''multi\nline''')\nprint(F'upper')\n")
    yield C("remove-unnecessary-f-str", "fstring", "escaped-braces", "print(f'{{}}')\nprint(f'a{{b}}c' 'd')\nprint(f'100%')\n")
    for v in ("len", "(lambda: 1)", "int", "3", "None", "type('C', (), {'__call__': lambda s: 1})()", "print", "'s'"):
        yield C("fix-hasattr-call", "hasattr-dunder-call", "plain", f"v = {v}\nprint(hasattr(v, '__call__'))\n")
    yield C("fix-hasattr-call", "hasattr-dunder-call", "instance-attr-call", "class C: pass\nv = C()\nv.__call__ = lambda: 1\nprint(hasattr(v, '__call__'))\n")
    LOG = "import logging, sys\nlogging.basicConfig(stream=sys.stdout, level=logging.DEBUG, format='%(levelname)s:%(message)s')\n"
    yield C("fix-deprecated-logging-warn", "logging-warn", "plain", LOG + "logging.warn('careful %s', 1)\nlog = logging.getLogger('x')\nlog.warn('again')\nlogging.getLogger('y').warn('third %d', 3)\n")
    yield C("fix-deprecated-logging-warn", "logging-warn", "from-import", LOG + "from logging import warn, getLogger\nwarn('w %s', 2)\ngetLogger('z').warn('q')\n")
    for expr, cls in (("'a %s' % name", "percent-one"), ("'a %s %d' % (name, n)", "percent-tuple"), ("'v: ' + name", "plus"), ("'v: ' + name + ' end'", "plus-chain"), ("'100%% %s' % name", "percent-escape"), ("'t %s' % tup", "percent-tuple-valued-name"),
                      ("'d %(k)s' % {'k': name}", "percent-mapping"), ("'%s' % n", "percent-int"), ("'a' + 'b' + name", "plus-literals"), ("'%5.2f|%-4s|' % (1.5, name)", "percent-width"), ("'v: ' + name + '%'", "plus-with-percent-literal"), ("f'{name}'", "fstring-untouched")):
        yield C("lazy-logging", "logging-format", cls, LOG + f"name = 'bob'\nn = 3\ntup = (1,)\nlogging.info({expr})\nlogging.getLogger('q').error({expr})\nlogging.log(logging.WARNING, {expr})\n")
    yield C("fix-deprecated-abstractproperty", "abc-deprecated-decorators", "plain", "import abc\nclass A(abc.ABC):\n    @abc.abstractproperty\n    def p(self): ...\n    @abc.abstractclassmethod\n    def c(cls): ...\n    @abc.abstractstaticmethod\n    def s(): ...\nclass B(A):\n    p = 1\n    @classmethod\n    def c(cls): return 'c'\n    @staticmethod\n    def s(): return 's'\nb = B()\nprint(b.p, B.c(), B.s())\ntry:\n    A()\nexcept TypeError:\n    print('abstract')\nprint(isinstance(A.__dict__['p'], property))\n")
    yield C("fix-deprecated-abstractproperty", "abc-deprecated-decorators", "from-import", "from abc import ABC, abstractproperty\nclass A(ABC):\n    @abstractproperty\n    def p(self): ...\nclass B(A):\n    p = 2\nprint(B().p)\ntry:\n    A()\nexcept TypeError:\n    print('abstract')\n")
    yield C("fix-file-resource-leak", "open-without-with", "plain", "def w():\n    f = open('t.txt', 'w')\n    f.write('hello')\n    f.flush()\n    g = open('t.txt')\n    data = g.read()\n    print(data)\nw()\nprint(open('t.txt').read())\n")
    yield C("fix-file-resource-leak", "open-without-with", "used-after-block", "def w():\n    f = open('t.txt', 'w')\n    f.write('a')\n    f.close()\n    f = open('t.txt')\n    d = f.read()\n    print(d, f.closed)\n    return f\nh = w()\nprint(h.name)\n")
    yield C("fix-file-resource-leak", "open-without-with", "returned-handle", "def w():\n    f = open('t2.txt', 'w')\n    f.write('x')\n    return f\nh = w()\nh.write('y')\nh.close()\nprint(open('t2.txt').read())\n")
    yield C("bad-lock-with-statement", "with-lock-constructor", "plain", "import threading\ndef f():\n    with threading.Lock():\n        print('in lock')\n    with threading.RLock() as l:\n        print(type(l).__name__ != '')\n    with threading.Condition():\n        print('cond')\nf()\n")
    yield C("bad-lock-with-statement", "with-lock-constructor", "name-collision", "import threading\nlock = 'existing'\ndef f():\n    with threading.Lock():\n        print('in', lock)\nf()\nprint(lock)\n")
    yield C("remove-module-global", "module-level-global", "plain", "global x\nx = 2\nprint(x)\ndef f():\n    global x\n    x = 3\nf()\nprint(x)\n")
    yield C("unused-imports", "unused-import", "plain", "import os, sys, json\nfrom collections import OrderedDict, defaultdict\nimport os.path\nd = defaultdict(int)\nd['a'] += 1\nprint(dict(d), os.sep == '/', sys.maxsize > 0)\n")
    yield C("unused-imports", "unused-import", "used-in-string-annotation-or-all", "import json\nimport decimal\n__all__ = ['json']\ndef f(a: 'decimal.Decimal'): return a\nprint(f(1), sorted(__all__))\n")
    yield C("unused-imports", "unused-import", "try-except-import", "try:\n    import json as j\nexcept ImportError:\n    j = None\nimport string\nprint(j is not None)\n")
    yield C("remove-future-imports", "future-import", "plain", "from __future__ import print_function, division, annotations\nprint(3 / 2)\ndef f(a: int) -> str: return str(a)\nprint(f.__annotations__)\n")
    yield C("remove-future-imports", "future-import", "only-obsolete", "from __future__ import absolute_import, unicode_literals\nprint(type('s').__name__)\n")
    yield C("order-imports", "import-order", "plain", "import sys\nimport os\nfrom collections import defaultdict, OrderedDict\nimport json\nprint(os.sep, sys.maxsize > 0, json.dumps(1), defaultdict, OrderedDict)\n")
    yield C("order-imports", "import-order", "duplicate-and-aliased", "import os\nimport sys as s\nimport os\nfrom os import path as p, sep\nfrom os import path as p\nprint(os.sep, s.maxsize > 0, p.join('a', 'b'), sep)\n")
    yield C("order-imports", "import-order", "rebinding-order-matters", "from json import loads as f\nfrom ast import literal_eval as f\nprint(f.__module__)\n")
    for q, cls in (("\"SELECT name FROM t WHERE name = '\" + n + \"'\"", "plus"), ("\"SELECT name FROM t WHERE name = '%s'\" % n", "percent"), ("f\"SELECT name FROM t WHERE name = '{n}'\"", "fstring"), ("\"SELECT name FROM t WHERE name = '{}'\".format(n)", "format"),
                   ("\"SELECT name FROM t WHERE name = '\" + n + \"' AND id > 0\"", "plus-tail"), ("\"SELECT name FROM t WHERE name = '\" + n + \"' OR name = '\" + n + \"'\"", "plus-same-twice"), ("\"SELECT name FROM t WHERE name LIKE '\" + n + \"%'\"", "like-suffix")):
        yield C("sql-parameterization", "sqlite-query", cls, f"import sqlite3\ndef q(n):\n    c = sqlite3.connect(':memory:')\n    cur = c.cursor()\n    cur.execute('CREATE TABLE t (id INTEGER, name TEXT)')\n    cur.execute(\"INSERT INTO t VALUES (1, 'bob')\")\n    cur.execute(\"INSERT INTO t VALUES (2, 'al')\")\n    cur.execute({q})\n    return cur.fetchall()\nfor n in ('bob', 'al', 'nobody', 'b'):\n    print(q(n))\n")



# ---------------------------------------------------------------- nested / repeated sites of the same codemod
def fam_nested(rnd, full):
    rows = [(1, 2, 3), (2, 2, 2), (None, 1, None), (3, 2, 1)]
    for expr, t in (("not (not a == b)", "double-negation"), ("not bool(not a == b) is False", "inner-negation-in-operand"), ("not len([i for i in (a, b, c) if not i is None]) == 0", "inner-negation-in-comprehension"),
                    ("not (a == b and not b == c)", "negation-of-conjunction"), ("not a == b and not b != c", "two-flat-negations"), ("(not a in (b, c)) or (not c is None)", "two-flat-negations-membership")):
        yield C("invert-boolean-check", "nested-negations", "plain", driver("a, b, c", expr, rows), t)
    yield C("use-generator", "nested-calls", "pure", "def f(xss):\n    return any([all([y > 0 for y in xs]) for xs in xss])\nprint(f([[1, 2], [0]]), f([[0], [-1]]), f([]))\nprint(sum([max([y for y in xs]) for xs in [[1, 5], [2]]]))\n")
    yield C("use-set-literal", "nested-calls", "plain", "print(sorted(set([len(set([1, 2, 2])), len(set([3]))])))\n")
    yield C("remove-unnecessary-f-str", "nested-fstring", "plain", "x = 3\nprint(f\"{f'inner'} {x}\")\nprint(f'a' + f\"b\")\n")
    LOG = "import logging, sys\nlogging.basicConfig(stream=sys.stdout, level=logging.DEBUG, format='%(levelname)s:%(message)s')\n"
    yield C("lazy-logging", "nested-format", "percent-in-percent", LOG + "name = 'bob'\nlogging.info('outer %s' % ('inner %s' % name))\nlogging.info('a ' + ('b ' + name))\n")
    yield C("combine-startswith-endswith", "pure-or", "plain", driver("a, b, x, y, t, c, d", "(a.startswith(x) or a.startswith(y)) or (b.endswith(x) or b.endswith(y))", [("abc", "xbc", "a", "b", "", True, False), ("zz", "ab", "q", "b", "", False, True)]), "two-combinable-groups")
    yield C("use-walrus-if", "assign-then-if/nested", "plain", "def val(n):\n    print('val', n)\n    return n\ndef f():\n    x = val(1)\n    if x:\n        y = val(0)\n        if y:\n            print('both')\n        else:\n            print('x only')\nf()\n")

# ---------------------------------------------------------------- sql: printf-style queries whose left side has several literal pieces
def fam_sql_pieces(rnd, full):
    pre = ("import sqlite3\ndef q(n, c, tm):\n    con = sqlite3.connect(':memory:')\n    cur = con.cursor()\n    cur.execute('CREATE TABLE t (name TEXT, city TEXT, team TEXT)')\n"
           "    cur.execute(\"INSERT INTO t VALUES ('bob', 'rome', 'red')\")\n    cur.execute(\"INSERT INTO t VALUES ('al', 'oslo', 'blue')\")\n    cur.execute(\"INSERT INTO t VALUES ('bob', 'oslo', 'blue')\")\n")
    post = "    return cur.fetchall()\nfor args in (('bob', 'rome', 'red'), ('bob', 'oslo', 'blue'), ('al', 'oslo', 'blue'), ('al', 'rome', 'red')):\n    print(q(*args))\n"
    Q = {
        "one-piece-three-params": "\"SELECT name FROM t WHERE name = '%s' AND city = '%s' AND team = '%s'\" % (n, c, tm)",
        "three-pieces-implicit-concat": "(\"SELECT name FROM t WHERE name = '%s' \"\n        \"AND city = '%s' \"\n        \"AND team = '%s'\") % (n, c, tm)",
        "three-pieces-gap": "(\"SELECT name FROM t WHERE name = '%s' \"\n        \"AND 1 = 1 \"\n        \"AND team = '%s'\") % (n, tm)",
        "three-pieces-plus": "(\"SELECT name FROM t WHERE name = '%s' \" + \"AND city = '%s' \" + \"AND team = '%s'\") % (n, c, tm)",
        "two-pieces": "(\"SELECT name FROM t WHERE name = '%s' \"\n        \"AND city = '%s'\") % (n, c)",
        "fstring-three-params": "f\"SELECT name FROM t WHERE name = '{n}' AND city = '{c}' AND team = '{tm}'\"",
        "format-three-params": "\"SELECT name FROM t WHERE name = '{}' AND city = '{}' AND team = '{}'\".format(n, c, tm)",
        "plus-three-params": "\"SELECT name FROM t WHERE name = '\" + n + \"' AND city = '\" + c + \"' AND team = '\" + tm + \"'\"",
        "dict-percent": "\"SELECT name FROM t WHERE name = '%(a)s' AND team = '%(b)s'\" % {'a': n, 'b': tm}",
    }
    for name, q in Q.items():
        yield C("sql-parameterization", "sqlite-query/multi-parameter", name, pre + f"    cur.execute({q})\n" + post, name)

# ---------------------------------------------------------------- file handles reachable through alias chains (fix-file-resource-leak)
def fam_file_alias(rnd, full):
    """f = open(...); g = f; h = g ...: every alias is the same resource. depth x what happens to the deepest alias (used last / returned / closed / passed on)"""
    for depth in (0, 1, 2, 3):
        names = ["f", "g", "h", "k"][: depth + 1]; last = names[-1]
        chain = "".join(f"    {b} = {a}\n" for a, b in zip(names, names[1:]))
        setup = "def w():\n    p = open('t.txt', 'w')\n    p.write('hello world')\n    p.close()\n"
        for fate, tail in (("used-last", f"    first = f.read(2)\n    rest = {last}.read()\n    print(first, rest)\n"),
                           ("returned", f"    print(f.read(1))\n    return {last}\n"),
                           ("closed-explicitly", f"    print({last}.read())\n    {last}.close()\n    print(f.closed)\n"),
                           ("passed-to-call", f"    consume({last})\n    print(f.closed)\n"),
                           ("stored-in-list", f"    keep.append({last})\n    print(len(keep))\n")):
            src = "keep = []\ndef consume(x):\n    print(x.read(3))\n" + setup + "w()\n" + f"def r():\n    f = open('t.txt')\n{chain}{tail}" + "res = r()\nif res is not None:\n    print(res.read(4), res.closed)\nfor x in keep:\n    print(x.read(2))\n"
            yield C("fix-file-resource-leak", f"open-alias-chain/depth-{depth}", fate, src, f"depth{depth}-{fate}")
    yield C("fix-file-resource-leak", "open-twice-same-name", "plain", "def w():\n    f = open('a.txt', 'w')\n    f.write('1')\n    f = open('b.txt', 'w')\n    f.write('2')\nw()\nprint(open('a.txt').read(), open('b.txt').read())\n")
    yield C("fix-file-resource-leak", "open-in-branch", "plain", "def w(flag):\n    if flag:\n        f = open('a.txt', 'w')\n    else:\n        f = open('b.txt', 'w')\n    f.write('x')\n    f.flush()\n    print(f.name)\nw(True)\nw(False)\n")

# ---------------------------------------------------------------- import blocks (order-imports, unused-imports)
IMPORTABLE = {"os": ["path", "sep", "getcwd"], "json": ["dumps", "loads"], "sys": ["maxsize", "argv"], "collections": ["OrderedDict", "defaultdict"], "math": ["pi", "floor"], "itertools": ["chain", "count"], "string": ["digits"]}
def import_block(rnd):
    """random top-level import block + a body that prints something stable about every name the block binds"""
    stmts = []; bound = []
    for _ in range(rnd.randint(2, 6)):
        m = rnd.choice(sorted(IMPORTABLE)); kind = rnd.choice(("import", "import-as", "from", "from-as", "from-multi", "from-same-name-two-bindings", "from-paren"))
        if kind == "import": stmts.append(f"import {m}"); bound.append(m)
        elif kind == "import-as": al = f"{m}_{rnd.choice('xyz')}"; stmts.append(f"import {m} as {al}"); bound.append(al)
        elif kind == "from": n = rnd.choice(IMPORTABLE[m]); stmts.append(f"from {m} import {n}"); bound.append(n)
        elif kind == "from-as": n = rnd.choice(IMPORTABLE[m]); al = f"{n}_{rnd.choice('xyz')}"; stmts.append(f"from {m} import {n} as {al}"); bound.append(al)
        elif kind == "from-multi":
            ns = rnd.sample(IMPORTABLE[m], min(2, len(IMPORTABLE[m]))); al = ns[-1] + "_al"
            stmts.append(f"from {m} import {ns[0]}, {ns[-1]} as {al}"); bound += [ns[0], al]
        elif kind == "from-same-name-two-bindings":
            n = rnd.choice(IMPORTABLE[m]); al = n + "_b"
            if rnd.random() < 0.5: stmts += [f"from {m} import {n} as {al}", f"from {m} import {n}"]
            else: stmts.append(f"from {m} import {n}, {n} as {al}")
            bound += [n, al]
        else:
            ns = IMPORTABLE[m][:2]; stmts.append(f"from {m} import (\n    {ns[0]},\n    {ns[-1]},\n)"); bound += list(ns)
    rnd.shuffle(stmts)
    seen = []; 
    for b in bound:
        if b not in seen: seen.append(b)
    body = "".join(f"print({b!r}, getattr({b}, '__name__', None) or type({b}).__name__)\n" for b in seen)
    return "\n".join(stmts) + "\n\n" + body

def fam_imports(rnd, full):
    for k in range(60 if full else 14):
        src = import_block(rnd)
        yield C("order-imports", "import-block", "all-bindings-used", src, f"block{k}")
        # drop the uses of one binding: unused-imports must remove only that
        lines = src.splitlines(keepends=True); prints = [i for i, l in enumerate(lines) if l.startswith("print(")]
        if len(prints) > 1:
            del lines[rnd.choice(prints)]
            yield C("unused-imports", "import-block", "one-binding-unused", "".join(lines), f"block{k}")

def fam_import_blocks(rnd, full):
    """several top-level import blocks separated by ordinary statements, each block already ordered or not: what happens to one block must not touch the others"""
    ORD = ["import abc", "import collections", "import json", "import os", "import sys"]
    for k in range(24 if full else 6):
        blocks = []; used = []
        nb = rnd.randint(2, 3)
        pool = ORD[:]; rnd.shuffle(pool)
        for b in range(nb):
            mods = [pool.pop() for _ in range(min(len(pool), rnd.randint(1, 2)))]
            if not mods: break
            ordered = sorted(mods)
            state = ("ordered", "unordered")[(k + b) % 2] if len(mods) > 1 else "ordered"
            blocks.append((ordered if state == "ordered" else ordered[::-1], state)); used += [m.split()[1] for m in mods]
        if len(blocks) < 2 or all(st_ == "ordered" for _, st_ in blocks): continue
        src = ""
        for i, (stmts, st_) in enumerate(blocks):
            src += "\n".join(stmts) + f"\n\nVF_BLOCK_{i} = {i}\n\n"
        src += "".join(f"print({u!r}, {u}.__name__)\n" for u in used)
        yield C("order-imports", "several-import-blocks", "+".join(st_ for _, st_ in blocks), src, f"blocks{k}")

def fam_future(rnd, full):
    """import lists from which some names are removed and others kept, in every order and list layout (what remains must still be a well-formed list)"""
    NAMES = ["annotations", "print_function", "division", "generator_stop", "unicode_literals", "absolute_import"]
    sels = [p_ for n in (1, 2, 3) for p_ in itertools.permutations(NAMES, n)]
    step = max(1, len(sels) // (120 if full else 36))
    LAY = {"plain": "from __future__ import {0}", "parens": "from __future__ import ({0})", "parens-trailing-comma": "from __future__ import ({0},)", "exploded": "from __future__ import (\n    {1},\n)", "tight": "from __future__ import {2}"}
    for k, sel in enumerate(sels[rnd.randrange(step):: step]):
        lay = list(LAY)[k % len(LAY)]
        kept = "kept-first" if sel[0] == "annotations" else ("kept-last" if sel[-1] == "annotations" else ("kept-middle" if "annotations" in sel else "all-removed"))
        head = LAY[lay].format(", ".join(sel), ",\n    ".join(sel), ",".join(sel))
        yield C("remove-future-imports", f"future-import-list/{kept}", lay, head + "\ndef f(a: int = 3) -> str:\n    return 'v' + str(a / 2)\nprint(f(), f.__annotations__)\n", f"future_{len(sel)}_{kept}")

def fam_removed_statement(rnd, full):
    """codemods that delete a whole statement: the statement as the only one of its block, with and without comments / blank lines around it (the block must stay a block),
    and `global` in every kind of scope (only the module-level one is redundant)"""
    deco = {"bare": ("", ""), "comment-above": ("{i}# why this is here\n", ""), "trailing-comment": ("", "  # left over"), "blank-line-above": ("\n", ""), "comment-above+trailing": ("{i}# note\n", "  # dbg")}
    for dn, (above, trail) in deco.items():
        a8 = above.format(i=" " * 8); a4 = above.format(i=" " * 4)
        yield C("remove-debug-breakpoint", "sole-statement-of-block/if", dn, f"def f(x):\n    if x:\n{a8}        breakpoint(){trail}\n    return x\nprint(f(0))\n", "sole_if")
        yield C("remove-debug-breakpoint", "sole-statement-of-block/try", dn, f"import pdb\ndef f(x):\n    try:\n{a8}        pdb.set_trace(){trail}\n    except ValueError:\n        return -1\n    return x\nprint(len(f.__name__))\n", "sole_try")
        yield C("remove-debug-breakpoint", "sole-statement-of-block/else", dn, f"def f(x):\n    for _ in x:\n        x = x[1:]\n    else:\n{a8}        breakpoint(){trail}\n    return x\nprint(f.__name__)\n", "sole_else")
        yield C("remove-module-global", "sole-statement-of-block/if", dn, f"if True:\n{a4}    global flag{trail}\nflag = 3\nprint(flag)\n", "sole_global_if")
    G = {"module-level": "global counter\ncounter = 1\ndef f():\n    return counter + 1\nprint(f())\n",
         "class-body": "class Config:\n    global DEFAULT\n    DEFAULT = 30\n    other = 1\ndef f():\n    return DEFAULT + Config.other\nprint(f())\n",
         "nested-class-body": "class A:\n    class B:\n        global DEEP\n        DEEP = 5\nprint(DEEP)\n",
         "function": "def setup():\n    global registry\n    registry = {}\nsetup()\nprint(registry)\n",
         "class-in-function": "def mk():\n    class K:\n        global made\n        made = 2\n    return K\nmk()\nprint(made)\n",
         "method": "class S:\n    def set(self):\n        global shared\n        shared = 9\nS().set()\nprint(shared)\n",
         "class-body+module-level": "global top\ntop = 1\nclass C:\n    global inner\n    inner = top + 1\nprint(top, inner)\n"}
    for gn, src in G.items():
        yield C("remove-module-global", "global-statement-scope/" + gn, "plain", src, "global_" + gn)

FAMS = [fam_future, fam_removed_statement, fam_import_blocks, fam_startswith, fam_isinstance, fam_invert, fam_generator, fam_misc, fam_nested, fam_sql_pieces, fam_file_alias, fam_imports]

def all_cases(rnd, full):
    return [c for f in FAMS for c in f(rnd, full)]
