import json, os
SEEDS = os.path.join(os.path.dirname(os.path.dirname(os.path.abspath(__file__))), "corpus", "seeds.jsonl")
SEMGREP_DETECTED = {"add-requests-timeouts", "django-debug-flag-on", "django-session-cookie-secure-off", "enable-jinja2-autoescape", "harden-pyyaml", "harden-ruamel", "jwt-decode-verify", "limit-readline", "safe-lxml-parser-defaults", "safe-lxml-parsing", "sandbox-process-creation", "requests-verify", "secure-flask-cookie", "secure-random", "upgrade-sslcontext-minimum-version", "upgrade-sslcontext-tls", "url-sandbox", "bad-lock-with-statement", "django-json-response-type", "fix-deprecated-logging-warn", "fix-hasattr-call", "lazy-logging"}
def load():
    return [json.loads(l) for l in open(SEEDS, encoding="utf-8")]
def is_semgrep_detected(cid):
    return cid.startswith("pixee:") and cid.split("/")[1] in SEMGREP_DETECTED
