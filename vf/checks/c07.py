"""C07: second run over the first run's output changes nothing."""
import base64, collections, os, sys
from vf.checks import grid
from vf.runner import run_check, Violation

def judge(job, res):
    v = []; st = collections.Counter(); nt = []
    r1, r2 = res["runs"]
    if r1["rc"] != 0 or r1["exc"]: st["run_failed"] += 1; return v, st, nt
    rewritten = [os.path.basename(e["path"]) for e in r1["trace"] if e["k"] == "pipe" and e["before"] != e["after"] and e["after"] is not None]
    if not rewritten: return v, st, nt
    for n in rewritten: nt.append((job["cid"], n, job["id"]))
    st["fired:" + job["cid"]] += len(rewritten)
    if r2["rc"] != 0 or r2["exc"]:
        v.append(Violation("C07", f"{job['cid'].split('/')[1]}/second-run-failed", f"rc={r2['rc']} exc={r2['exc']}", {"codemod": job["cid"]})); return v, st, nt
    changed = [k for k in r1["tree"] if r2["tree"].get(k) != r1["tree"][k]] + [k for k in r2["tree"] if k not in r1["tree"]]
    writes2 = [os.path.basename(e["path"]) for e in r2["trace"] if e["k"] == "write"]
    cs2 = [cs["path"] for r in (r2["report"] or {}).get("results", []) for cs in r["changeset"]]
    for k in sorted(set(changed) | set(writes2) | set(cs2)):
        lab = tuple(job["labels"].get(k, ()))
        a = r1["tree"].get(k, ""); b = r2["tree"].get(k, "")
        dec = lambda s: base64.b64decode(s[2:]).decode("utf-8", "replace") if s.startswith("F:") else s
        site_cls = "several-sites" if (str(lab[0] if lab else "").startswith("twice") or lab[1:2] == ("mixed",)) else (str(lab[1]) if lab[:1] == ("family",) else "single-site")   # twice / mixed import bindings = several copies of the trigger in one file
        v.append(Violation("C07", f"{job['cid'].split('/')[1]}/not-a-fixed-point/{site_cls}", f"second run changed {k} (changed={k in changed} write={k in writes2} changeset={k in cs2})", {"codemod": job["cid"], "labels": lab, "after_run1": dec(a), "after_run2": dec(b)}))
    return v, st, nt

def main():
    return run_check("C07", "exploration", grid.plan, judge, "grid as C01, each project run twice; non-trivial = run 1 rewrote the file", 50, deciding_counters=("pipe_libcst",), module=__name__)

if __name__ == "__main__":
    sys.exit(main())
