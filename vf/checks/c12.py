"""C12: no finding is lost, duplicated or altered between the tool result files and the codemods.

Four layers, all on the real classes:
  (a) algebra  - families of result sets (built by the real readers) folded with `|` and with `|=`, every order, vs multiset union
  (b) readers  - generated Sonar / Semgrep-SARIF / CodeQL-SARIF / DefectDojo documents vs a reference extraction written from the formats
  (c) detectors- the functions the SAST detectors call to combine several files per tool, every order, vs union of reference extractions
  (e) hand-off - the real BaseCodemod._process_file (transformer replaced by a recorder) over the cached combined result set, three uses in a row, every
                 file x sampled rule lists: findings handed over == reference findings of those rules in that file; the cached set is not written to
  (d) end2end  - real CLI runs with the findings of n sites partitioned over 2-3 result files (issues/hotspots, several files), every order:
                 every reported site must be fixed
Monitors: post-condition wrappers (counted) on ResultSet.__or__, ResultSet.add_result and the readers record operands/results;
the oracle is O-union (dict rule -> path -> multiset of (start, end, id))."""
import base64, collections, itertools, json, os, random, shutil, sys, tempfile, time
from pathlib import Path
from vf.runner import Violation, finish, tier_seed, run_jobs
b64 = lambda b: base64.b64encode(b.encode() if isinstance(b, str) else b).decode(); unb = base64.b64decode

# ------------------------------------------------------------------ multiset views
def ms(rs):
    """rule -> path -> Counter of (sl, sc, el, ec, id): one entry per stored result object and location in that file"""
    out = {}
    for rule, d in rs.items():
        for p, lst in d.items():
            c = collections.Counter()
            for r in lst:
                locs = [l for l in r.locations if str(l.file) == str(p)]
                # a result stored under a file is counted once, with the tuple of its locations in that file
                c[(tuple((l.start.line, l.start.column, l.end.line, l.end.column) for l in locs), str(getattr(r, "finding_id", None)))] += 1
            if c: out.setdefault(rule, {})[str(p)] = c
    return out

def union(a, b):
    out = {r: {p: collections.Counter(c) for p, c in d.items()} for r, d in a.items()}
    for r, d in b.items():
        for p, c in d.items(): out.setdefault(r, {}).setdefault(p, collections.Counter()).update(c)
    return out

def total(m): return sum(sum(c.values()) for d in m.values() for c in d.values())

def ref_add(out, rule, path, locs, fid):
    out.setdefault(rule, {}).setdefault(path, collections.Counter())[(tuple(locs), str(fid))] += 1

# ------------------------------------------------------------------ document generators + reference extractions
RULES = {"sonar": ["python:S1", "python:S2", "pythonsecurity:S3"], "semgrep": ["a.b.rule-one", "a.b.rule-two", "c.rule-three"], "codeql": ["py/one", "py/two", "py/three"], "defectdojo": ["title.one", "title.two", "title three"]}
PATHS = ["a.py", "b.py", "pkg/c.py"]

def gen_sonar(rnd, uid):
    def items(kind):
        out = []
        for _ in range(rnd.randint(0, 4)):
            l = rnd.randint(1, 9); c = rnd.randint(0, 20)
            # (a Sonar project key may itself contain colons - Maven groupId:artifactId -: the path is what follows the LAST colon)
            it = {"key": f"K{next(uid)}", "rule": rnd.choice(RULES["sonar"]), "status": rnd.choice(("OPEN", "OPEN", "TO_REVIEW", "CLOSED", "RESOLVED", "open", "REVIEWED")), "component": rnd.choice(("proj:", "org_proj:", "", "com.example:billing-service:", "acme:platform:billing:")) + rnd.choice(PATHS), "message": "m"}
            if rnd.random() < 0.9: it["textRange"] = {"startLine": l, "endLine": l + rnd.choice((0, 0, 1)), "startOffset": c, "endOffset": c + 5}
            if rnd.random() < 0.2: it["flows"] = [{"locations": [{"component": it["component"], "textRange": {"startLine": 1, "endLine": 1, "startOffset": 0, "endOffset": 1}}]}]
            if kind == "hotspots" and rnd.random() < 0.5: it["ruleKey"] = it.pop("rule")
            out.append(it)
        return out
    shape = rnd.choice(("issues", "hotspots", "both", "issues+empty-hotspots", "empty-issues+hotspots"))
    doc = {}
    if shape in ("issues", "both", "issues+empty-hotspots"): doc["issues"] = items("issues")
    if shape in ("hotspots", "both", "empty-issues+hotspots"): doc["hotspots"] = items("hotspots")
    if shape == "issues+empty-hotspots": doc["hotspots"] = []
    if shape == "empty-issues+hotspots": doc["issues"] = []
    if shape == "both" and not doc["issues"]: shape = "empty-issues+hotspots"
    return doc, shape

def ref_sonar(doc):
    out = {}
    for it in (doc.get("issues") or []) + (doc.get("hotspots") or []):
        if it["status"].lower() not in ("open", "to_review") or "textRange" not in it: continue
        tr = it["textRange"]
        ref_add(out, it.get("rule") or it.get("ruleKey"), it["component"].split(":")[-1], [(tr["startLine"], tr["startOffset"], tr["endLine"], tr["endOffset"])], it["key"])
    return out

def sarif_result(rnd, tool, uid, by_index=False):
    rule = rnd.choice(RULES[tool]); nloc = rnd.choice((1, 1, 1, 2))
    locs = []
    for _ in range(nloc):
        l = rnd.randint(1, 9); c = rnd.randint(1, 20)
        region = {"startLine": l, "startColumn": c, "endLine": l + rnd.choice((0, 0, 2)), "endColumn": c + 4}
        if rnd.random() < 0.3: region["snippet"] = {"text": "x" * 4}
        locs.append({"physicalLocation": {"artifactLocation": {"uri": rnd.choice(PATHS)}, "region": region}})
    res = {"message": {"text": "m"}, "locations": locs}
    if by_index: res["rule"] = {"id": rule, "index": RULES[tool].index(rule), "toolComponent": {"index": 0}}
    else: res["ruleId"] = rule
    if rnd.random() < 0.2: res["relatedLocations"] = [dict(locs[0], message={"text": "rel"})]
    if rnd.random() < 0.2: res["codeFlows"] = [{"threadFlows": [{"locations": [{"location": locs[0]}]}]}]
    return res

NONASCII_LINES = ["x = call(arg, 'é', other)", "   r = requests.get('ü✓', verify=False)  # ñ", "plain_ascii_line = call(a, b)", "naïve = f(ß, 1)", "s = '日本語'; g(s, t)"]
def sarif_result_bytes(rnd, uid):
    """a Semgrep result the way semgrep writes it: 1-based UTF-8 BYTE columns and a snippet holding the complete source lines of the region.
    -> (sarif result, reference location in CHARACTER columns)"""
    rule = rnd.choice(RULES["semgrep"]); n = rnd.choice((1, 1, 2, 3)); lines = [rnd.choice(NONASCII_LINES) for _ in range(n)]
    l0 = rnd.randint(1, 9)
    c0 = rnd.randint(0, len(lines[0]) - 2); c1 = rnd.randint((c0 + 1) if n == 1 else 1, len(lines[-1]))      # character offsets (0-based start, exclusive end)
    b0 = len(lines[0][:c0].encode("utf-8")) + 1; b1 = len(lines[-1][:c1].encode("utf-8")) + 1
    uri = rnd.choice(PATHS)
    res = {"ruleId": rule, "message": {"text": "m"}, "locations": [{"physicalLocation": {"artifactLocation": {"uri": uri}, "region": {"startLine": l0, "startColumn": b0, "endLine": l0 + n - 1, "endColumn": b1, "snippet": {"text": "\n".join(lines)}}}}]}
    return res, (rule, uri, (l0, b0, l0 + n - 1, b1), (l0, c0 + 1, l0 + n - 1, c1 + 1))

def gen_sarif(rnd, tool, uid):
    name = {"semgrep": rnd.choice(("Semgrep OSS", "semgrep", "Semgrep PRO")), "codeql": "CodeQL"}[tool]
    runs = []; shape = []
    for _ in range(rnd.choice((1, 1, 2))):
        by_index = tool == "codeql" and rnd.random() < 0.5
        run = {"tool": {"driver": {"name": name, "rules": []}}, "results": [sarif_result(rnd, tool, uid, by_index) for _ in range(rnd.randint(0, 4))]}
        if tool == "codeql": run["tool"]["extensions"] = [{"name": "q", "rules": [{"id": r} for r in RULES[tool]]}]
        runs.append(run); shape.append("rule-by-index" if by_index else "ruleId")
    if rnd.random() < 0.35:  # a foreign tool's run in the same file
        other = "codeql" if tool == "semgrep" else "semgrep"
        fr = {"tool": {"driver": {"name": {"semgrep": "Semgrep OSS", "codeql": "CodeQL"}[other]}}, "results": [sarif_result(rnd, other, uid) for _ in range(rnd.randint(1, 2))]}
        if other == "codeql" and rnd.random() < 0.3:
            fr["results"].append({"ruleId": "py/file-level", "message": {"text": "m"}, "locations": [{"physicalLocation": {"artifactLocation": {"uri": "a.py"}}}]}); shape.append("foreign-run-result-without-region")
        runs.insert(rnd.randint(0, len(runs)), fr); shape.append("foreign-run")
    if tool == "semgrep" and rnd.random() < 0.5:
        extra = [sarif_result_bytes(rnd, uid) for _ in range(rnd.randint(1, 3))]
        runs[0]["results"] += [e[0] for e in extra]; runs[0].setdefault("_ref_char_locations", []).extend(e[1] for e in extra)
        shape.append("byte-columns+" + ("multi-line" if any(e[1][3][0] != e[1][3][2] for e in extra) else "single-line") + "-snippet")
    if len(runs) > 1: shape.append("multi-run")
    if any(len(r["locations"]) > 1 and len({l["physicalLocation"]["artifactLocation"]["uri"] for l in r["locations"]}) < len(r["locations"]) for run in runs for r in run["results"]): shape.append("two-locations-one-file")
    return {"version": "2.1.0", "runs": runs}, "+".join(sorted(set(shape)))

def ref_sarif(doc, tool):
    out = {}
    for run in doc["runs"]:
        nm = run["tool"]["driver"]["name"]
        if not (("semgrep" in nm.lower()) if tool == "semgrep" else ("CodeQL" in nm)): continue   # other tools' runs are foreign entries
        refs = {(r_, u_, tuple(byt)): tuple(loc) for r_, u_, byt, loc in run.get("_ref_char_locations", [])}
        for res in run["results"]:
            rule = res.get("ruleId") or run["tool"]["extensions"][res["rule"]["toolComponent"]["index"]]["rules"][res["rule"]["index"]]["id"]
            byfile = collections.defaultdict(list)
            for loc in res["locations"]:
                r = loc["physicalLocation"]["region"]; uri_ = loc["physicalLocation"]["artifactLocation"]["uri"]
                # Semgrep's columns count UTF-8 bytes; the codemods work in characters: where the generator knows the character columns, those are the reference
                byfile[uri_].append(refs.get((rule, uri_, (r["startLine"], r["startColumn"], r["endLine"], r["endColumn"])), (r["startLine"], r["startColumn"], r["endLine"], r["endColumn"])))
            for f, locs in byfile.items(): ref_add(out, rule, f, locs, rule)
    return out

def gen_dd(rnd, uid):
    return {"count": 0, "results": [{"id": next(uid), "title": rnd.choice(RULES["defectdojo"]), "file_path": rnd.choice(PATHS), "line": rnd.randint(1, 9), "active": True} for _ in range(rnd.randint(0, 4))]}, "results"

def ref_dd(doc):
    out = {}
    for it in doc["results"]: ref_add(out, it["title"], it["file_path"], [(it["line"], -1, it["line"], -1)], it["id"])
    return out

def dedup_multiloc(m):
    """undo the 'one copy per location' storage of a result with L>1 locations in one file"""
    out = {}
    for r, d in m.items():
        for p, c in d.items():
            cc = collections.Counter()
            for (locs, fid), n in c.items():
                L = max(1, len(locs)); cc[(locs, fid)] = n // L if n % L == 0 else n
            out.setdefault(r, {})[p] = cc
    return out

def classify_reader(tool, shape, doc, got, want):
    """mechanism key for a reader disagreement; looks at the document structure and the witness only"""
    if tool == "sonar" and doc.get("issues") and doc.get("hotspots"):
        if got == ref_sonar({"issues": doc["issues"]}): return "sonar-hotspots-dropped-when-issues-present"
    if "two-locations-one-file" in shape and dedup_multiloc(got) == want: return f"multi-location-duplicate/{tool}"
    kind = "lost" if total(got) < total(want) else ("duplicated" if total(got) > total(want) else "altered")
    return f"reader-{kind}/{tool}/{shape}"

# ------------------------------------------------------------------ monitors (post-condition wrappers with evaluation counters)
class RSMonitor:
    def __init__(self):
        self.counts = collections.Counter(); self._undo = []; self.or_violations = []
    def __enter__(self):
        from codemodder import result as R
        mon = self
        orig_or = R.ResultSet.__or__
        def __or__(self_, other):
            mon.counts["ResultSet.__or__"] += 1
            a, b = ms(self_), ms(other)
            res = orig_or(self_, other)
            if ms(res) != union(a, b): mon.or_violations.append({"left": str(a)[:300], "right": str(b)[:300], "result": str(ms(res))[:300]})
            return res
        R.ResultSet.__or__ = __or__; self._undo.append((R.ResultSet, "__or__", orig_or))
        orig_add = R.ResultSet.add_result
        def add_result(self_, result):
            mon.counts["ResultSet.add_result"] += 1
            return orig_add(self_, result)
        R.ResultSet.add_result = add_result; self._undo.append((R.ResultSet, "add_result", orig_add))
        return self
    def __exit__(self, *a):
        for o, n, f in reversed(self._undo): setattr(o, n, f)

# ------------------------------------------------------------------ end-to-end jobs
def e2e_jobs(tier, rnd):
    jobs = []
    n = 4
    src = "import random\n" + "".join(f"v{i} = random.random()\n" for i in range(n))
    FNAMES = ("code.py", "tests/test_code.py", "conftest.py", "build/gen.py", "pkg/site-packages/code.py")      # where the reported file lives: tool-driven codemods have no default excludes
    def sonar_item(i, kind, fname="code.py"):
        it = {"key": f"K{i}", "status": "OPEN" if kind == "issues" else "TO_REVIEW", "component": ("proj:" + fname, "com.example:svc:" + fname, fname)[i % 3], "message": "m", "textRange": {"startLine": i + 2, "endLine": i + 2, "startOffset": 5, "endOffset": 20}}
        it["rule" if kind == "issues" or i % 2 else "ruleKey"] = "python:S2245"
        return it
    parts_all = []
    for k in (2, 3):
        for assign in itertools.product(range(k), repeat=n):
            if len(set(assign)) == k: parts_all.append(assign)
    picks = parts_all if tier != "quick" else rnd.sample(parts_all, 8)
    for assign in picks:
        k = max(assign) + 1
        for kinds in ([("issues",) * k, ("hotspots",) * k, tuple(("issues", "hotspots")[j % 2] for j in range(k))] if tier != "quick" else [tuple(rnd.choice(("issues", "hotspots")) for _ in range(k))]):
            docs = []; fname = FNAMES[len(jobs) % len(FNAMES)]
            for j in range(k):
                docs.append((kinds[j], {kinds[j]: [sonar_item(i, kinds[j], fname) for i in range(n) if assign[i] == j]}))
            for order in (list(itertools.permutations(range(k))) if tier != "quick" else [tuple(range(k)), tuple(reversed(range(k)))]):
                rf = {}; issues = []; hot = []
                for j in order:
                    kind, doc = docs[j]; name = f"{kind}{j}.json"; rf[name] = json.dumps(doc)
                    (issues if kind == "issues" else hot).append("{res}/" + name)
                argv = ["{proj}", "--output", "{out}", "--codemod-include", "sonar:python/secure-random"]
                if issues: argv += ["--sonar-issues-json", ",".join(issues)]
                if hot: argv += ["--sonar-hotspots-json", ",".join(hot)]
                jobs.append({"id": f"e2e|sonar|{assign}|{kinds}|{order}", "tool": "sonar", "n": n, "assign": assign, "kinds": kinds, "files": {fname: b64(src)}, "fname": fname, "src": src, "result_files": rf, "argv": argv,
                             "monitors": {"snap": False, "pipe": True}, "marker": "random.random()"})
    # DefectDojo: several files
    dsrc = "import pickle\n" + "".join(f"r{i} = pickle.load(f{i})\n" for i in range(n))
    title = "python.django.security.audit.avoid-insecure-deserialization.avoid-insecure-deserialization"
    for assign in (parts_all if tier != "quick" else rnd.sample(parts_all, 4)):
        k = max(assign) + 1
        for order in (list(itertools.permutations(range(k))) if tier != "quick" else [tuple(range(k)), tuple(reversed(range(k)))]):
            rf = {}; names = []
            for j in order:
                name = f"dd{j}.json"; rf[name] = json.dumps({"results": [{"id": 100 + i, "title": title, "file_path": "code.py", "line": i + 2} for i in range(n) if assign[i] == j]}); names.append("{res}/" + name)
            jobs.append({"id": f"e2e|defectdojo|{assign}|{order}", "tool": "defectdojo", "n": n, "assign": assign, "kinds": ("results",) * k, "files": {"code.py": b64(dsrc)}, "src": dsrc, "result_files": rf,
                         "argv": ["{proj}", "--output", "{out}", "--codemod-include", "defectdojo:python/avoid-insecure-deserialization", "--defectdojo-findings-json", ",".join(names)], "monitors": {"snap": False, "pipe": True}, "marker": "pickle.load("})
    # one SARIF file holding runs of several tools (a merged code-scanning export), every order: each tool must get the file, the Semgrep finding must be fixed
    import itertools as _it
    COOKIE = 'from django.shortcuts import render\ndef index(request, template):\n    r0 = render(request, template)\n    r0.set_cookie("name", "value")\n    return r0\n'
    sem = {"tool": {"driver": {"name": "Semgrep OSS"}}, "results": [{"ruleId": "python.django.security.audit.secure-cookies.django-secure-set-cookie", "message": {"text": "m"},
           "locations": [{"physicalLocation": {"artifactLocation": {"uri": "code.py"}, "region": {"startLine": 4, "endLine": 4, "startColumn": 5, "endColumn": 35, "snippet": {"text": '    r0.set_cookie("name", "value")'}}}}]}]}
    cql = {"tool": {"driver": {"name": "CodeQL"}}, "results": [{"ruleId": "py/some-query", "message": {"text": "m"}, "locations": [{"physicalLocation": {"artifactLocation": {"uri": "code.py"}, "region": {"startLine": 2, "startColumn": 1, "endLine": 2, "endColumn": 4}}}]}]}
    # CodeQL omits endLine when the region ends on its start line (SARIF default): legal, and foreign to the Semgrep reader
    cql_min = {"tool": {"driver": {"name": "CodeQL"}}, "results": [{"ruleId": "py/some-query", "message": {"text": "m"}, "locations": [{"physicalLocation": {"artifactLocation": {"uri": "code.py"}, "region": {"startLine": 2, "startColumn": 1, "endColumn": 4}}}]}]}
    other = {"tool": {"driver": {"name": "Bandit"}}, "results": [{"ruleId": "B101", "message": {"text": "m"}, "locations": [{"physicalLocation": {"artifactLocation": {"uri": "code.py"}, "region": {"startLine": 1, "startColumn": 1, "endLine": 1, "endColumn": 3}}}]}]}
    runs = {"semgrep": sem, "codeql": cql, "other": other, "codeql-minimal-region": cql_min}
    orders = [o for n_ in (1, 2, 3) for o in _it.permutations(("semgrep", "codeql", "other"), n_) if "semgrep" in o] + [("semgrep", "codeql-minimal-region"), ("codeql-minimal-region", "semgrep")]
    for o in (orders if tier != "quick" else orders[:1] + rnd.sample(orders[1:-2], 5) + orders[-2:]):
        jobs.append({"id": f"e2e|sarif-mixed-runs|{o}", "tool": "semgrep", "n": 1, "assign": (0,), "kinds": ("sarif",), "mixed": list(o), "files": {"code.py": b64(COOKIE)}, "src": COOKIE,
                     "result_files": {"merged.sarif": json.dumps({"version": "2.1.0", "runs": [runs[k] for k in o]})},
                     "argv": ["{proj}", "--output", "{out}", "--codemod-include", "semgrep:python/django-secure-set-cookie", "--sarif", "{res}/merged.sarif"], "monitors": {"snap": False, "pipe": True, "sarif_tools": True}, "marker": 'set_cookie("name", "value")'})
    return jobs

def judge_mixed(job, run):
    v = []; st = collections.Counter(); nt = [job["id"]]
    w = {"case": job["id"], "runs_in_file": job["mixed"], "argv": job["argv"]}
    after = unb(run["tree"][job.get("fname", "code.py")][2:]).decode("utf-8", "replace")
    st["e2e:sarif-mixed-runs"] += 1
    ev = [e for e in run["trace"] if e["k"] == "sarif_tools"]
    if ev:
        got = {k: len(v_) for k, v_ in ev[0]["map"].items() if v_}
        want = {k.split("-")[0]: 1 for k in job["mixed"] if k.split("-")[0] in ("semgrep", "codeql")}
        if got != want: v.append(Violation("C12", "sarif-file-not-routed-to-every-tool/" + ">".join(job["mixed"]), f"one SARIF file with runs {job['mixed']} was filed under {got}, expected {want}", dict(w, routed=ev[0]["map"])))
    if job["marker"] in after: v.append(Violation("C12", "e2e-site-unfixed/semgrep/mixed-tool-sarif", f"the Semgrep finding in a SARIF file with runs {job['mixed']} was not fixed", dict(w, after=after)))
    return v, st, nt

def judge(job, r):
    """end-to-end judge (also used by replay)"""
    v = []; st = collections.Counter(); nt = []
    run = r["runs"][0]
    w = {"case": job["id"], "argv": job["argv"], "result_files": job["result_files"], "src": job["src"]}
    if run["rc"] != 0 or run["exc"]:
        key = f"e2e-run-failed/{job['tool']}"
        if "codeql-minimal-region" in (job.get("mixed") or []) and "KeyError" in str(run["exc"]): key = "e2e-foreign-run-breaks-semgrep-reader"
        return [Violation("C12", key, f"rc={run['rc']} exc={run['exc']}", dict(w, log=run["log"][-800:]))], st, nt
    if job.get("mixed"): return judge_mixed(job, run)
    after = unb(run["tree"][job.get("fname", "code.py")][2:]).decode("utf-8", "replace")
    unfixed = [i for i in range(job["n"]) if any(l.startswith((f"v{i} = ", f"r{i} = ")) and job["marker"] in l for l in after.splitlines())]
    nt.append(job["id"]); st["e2e:" + job["tool"]] += 1
    if unfixed:
        files_of = sorted({job["assign"][i] for i in unfixed})
        mixed = len(set(job["kinds"])) > 1
        key = f"e2e-site-unfixed/{job['tool']}/" + ("issues-and-hotspots-files" if mixed else f"several-{job['kinds'][0]}-files")
        v.append(Violation("C12", key, f"sites {unfixed} were reported (in result file(s) #{files_of} of {len(job['kinds'])}) but not fixed", dict(w, after=after)))
    return v, st, nt

def main():
    tier, seed = tier_seed(); t0 = time.time(); rnd = random.Random(f"C12:{seed}")
    from codemodder.result import ResultSet
    from core_codemods.sonar.results import SonarResultSet
    from core_codemods.sonar.api import process_sonar_findings
    from core_codemods.defectdojo.results import DefectDojoResultSet
    from core_codemods.defectdojo.api import _process_results as process_dd
    from codemodder.semgrep import SemgrepResultSet
    from codemodder.codeql import CodeQLResultSet
    from codemodder.codemods.semgrep import process_semgrep_findings
    from codemodder.codemods.codeql import process_codeql_findings
    import logging; logging.getLogger().setLevel(logging.CRITICAL); logging.getLogger("codemodder").setLevel(logging.CRITICAL); logging.disable(logging.CRITICAL)
    d = Path(tempfile.mkdtemp(prefix="vf_c12_")); uid = itertools.count(1)
    viols = []; evals = collections.Counter(); nontrivial = set(); samples = []; counters = {}
    READERS = {"sonar": (lambda f: SonarResultSet.from_json(str(f)), gen_sonar, ref_sonar, process_sonar_findings, SonarResultSet),
               "semgrep": (lambda f: SemgrepResultSet.from_sarif(str(f)), lambda r, u: gen_sarif(r, "semgrep", u), lambda doc: ref_sarif(doc, "semgrep"), process_semgrep_findings, SemgrepResultSet),
               "codeql": (lambda f: CodeQLResultSet.from_sarif(str(f)), lambda r, u: gen_sarif(r, "codeql", u), lambda doc: ref_sarif(doc, "codeql"), process_codeql_findings, CodeQLResultSet),
               "defectdojo": (lambda f: DefectDojoResultSet.from_json(str(f)), gen_dd, ref_dd, process_dd, DefectDojoResultSet)}
    N_DOC = 150 if tier == "quick" else 1500; N_ALG = 250 if tier == "quick" else 3000; N_DET = 120 if tier == "quick" else 1200
    fcount = itertools.count()
    def write(doc):
        f = d / f"doc{next(fcount)}.json"; f.write_text(json.dumps(doc)); return f
    with RSMonitor() as mon:
        # (b) readers
        good = {t: [] for t in READERS}   # (file, ref, resultset) for documents the reader got right
        for tool, (read, gen, ref, det, cls) in READERS.items():
            for i in range(N_DOC):
                doc, shape = gen(rnd, uid); f = write(doc); evals[f"reader:{tool}"] += 1
                want = ref(doc)
                try: got_rs = read(f); got = ms(got_rs); got_all = got
                except Exception as ex:
                    viols.append(Violation("C12", (f"reader-raises/{tool}/foreign-run-result-without-region" if "foreign-run-result-without-region" in shape else f"reader-raises/{tool}/{shape}"), f"{type(ex).__name__}: {str(ex)[:120]}", {"tool": tool, "doc": doc}, jobs=[{"layer": "reader", "tool": tool, "doc": doc}])); continue
                if total(want): nontrivial.add(("reader", tool, json.dumps(doc, sort_keys=True)))
                # entries of another tool's run stored under that tool's own rule ids reach no codemod of this tool: not judged (see DESIGN C12)
                got = {r: dd for r, dd in got.items() if r in RULES[tool]}
                if got != want:
                    viols.append(Violation("C12", classify_reader(tool, shape, doc, got, want), f"{tool} reader: {total(got)} stored vs {total(want)} in the document", {"tool": tool, "doc": doc, "got": str(got)[:1500], "reference": str(want)[:1500]}, jobs=[{"layer": "reader", "tool": tool, "doc": doc}]))
                else:
                    good[tool].append((f, got_all, got_rs))   # operands of (a) and (c): the multiset the reader really produced
                    if len(samples) < 2 and total(want) > 1: samples.append({"layer": "reader", "tool": tool, "document": doc, "extracted": str(got)[:400]})
        # (a) algebra on the real result sets
        for tool, (read, gen, ref, det, cls) in READERS.items():
            pool_ = [g for g in good[tool]]
            if len(pool_) < 5: continue
            for i in range(N_ALG // 4):
                k = rnd.choice((2, 2, 3, 4)); fam = [rnd.choice(pool_) for _ in range(k)]
                want = {}
                for _, m, _ in fam: want = union(want, m)
                keys = [set((r, p) for r, dd in m.items() for p in dd) for _, m, _ in fam]
                rules = [set(m) for _, m, _ in fam]
                over = "identical-keys" if all(x == keys[0] for x in keys) else ("disjoint-rules" if not set.intersection(*rules) else ("same-rules-different-files" if all(x == rules[0] for x in rules) else "partial-overlap"))
                if any(not m for _, m, _ in fam): over += "+empty-operand"
                if sum(1 for _, m, _ in fam if m) >= 2: nontrivial.add(("algebra", tool, tuple(str(f) for f, _, _ in fam)))
                for form in ("or", "ior"):
                    evals[f"merge:{form}"] += 1
                    try:
                        if form == "or":
                            acc = fam[0][2]
                            for _, _, s in fam[1:]: acc = acc | s
                        else:
                            acc = cls()
                            for _, _, s in fam: acc |= s
                        got = ms(acc)
                    except Exception as ex:
                        viols.append(Violation("C12", ("or-keyerror" if isinstance(ex, KeyError) and form == "or" else f"{form}-raises-{type(ex).__name__}/{over}"), f"{tool}: {form} over {k} sets raised {ex!r}", {"tool": tool, "operands": [str(m)[:400] for _, m, _ in fam]}, jobs=[{"layer": "algebra", "tool": tool, "form": form, "docs": [json.loads(Path(f).read_text()) for f, _, _ in fam]}])); continue
                    if got != want:
                        kind = "loses" if total(got) < total(want) else ("duplicates" if total(got) > total(want) else "alters")
                        viols.append(Violation("C12", ("ior-overwrites" if form == "ior" and kind == "loses" else f"{form}-{kind}/{over}"), f"{tool}: {form}-fold of {k} sets holds {total(got)} findings, multiset union has {total(want)}", {"tool": tool, "operands": [str(m)[:400] for _, m, _ in fam], "got": str(got)[:800]}, jobs=[{"layer": "algebra", "tool": tool, "form": form, "docs": [json.loads(Path(f).read_text()) for f, _, _ in fam]}]))
                    elif len(samples) < 4 and total(want) > 2: samples.append({"layer": "algebra", "tool": tool, "form": form, "operands": [str(m)[:200] for _, m, _ in fam], "result": str(got)[:300]})
        # (c) detector-level combination, every order
        for tool, (read, gen, ref, det, cls) in READERS.items():
            if len(good[tool]) < 5: continue
            for i in range(N_DET // 4):
                k = rnd.choice((2, 2, 3)); fam = rnd.sample(good[tool], k)
                want = {}
                for _, m, _ in fam: want = union(want, m)
                if sum(1 for _, m, _ in fam if m) >= 2: nontrivial.add(("detector", tool, tuple(str(f) for f, _, _ in fam)))
                for order in itertools.permutations(range(k)):
                    evals[f"detector:{tool}"] += 1
                    files = tuple(str(fam[j][0]) for j in order)
                    try: got = ms(det(files))
                    except Exception as ex:
                        viols.append(Violation("C12", f"detector-raises-{type(ex).__name__}/{tool}", f"combining {k} {tool} files raised {ex!r}", {"tool": tool, "operands": [str(fam[j][1])[:300] for j in order]}, jobs=[{"layer": "detector", "tool": tool, "docs": [json.loads(Path(f).read_text()) for f in files]}])); continue
                    if got != want:
                        kind = "loses" if total(got) < total(want) else ("duplicates" if total(got) > total(want) else "alters")
                        viols.append(Violation("C12", ("ior-overwrites" if kind == "loses" else f"detector-{kind}/{tool}"), f"{tool} detector over {k} files holds {total(got)} findings, the files hold {total(want)}", {"tool": tool, "operands": [str(fam[j][1])[:300] for j in order], "got": str(got)[:600]}, jobs=[{"layer": "detector", "tool": tool, "docs": [json.loads(Path(f).read_text()) for f in files]}]))
        # (e) hand-off: the real BaseCodemod._process_file of a real codemod, its transformer replaced by a recorder, is given the (per-process cached) combined
        #     result set of 1-2 files, three times over: for every file and every rule list it must hand the transformer exactly the reference findings of those
        #     rules in that file, and the cached result set must be the same multiset before and after (a hand-off never writes into the store it reads)
        import types
        from codemodder.registry import load_registered_codemods
        hand_cm = {}
        for c in load_registered_codemods().codemods:
            t = c.id.split(":")[0]
            if t in READERS and (t not in hand_cm or len(getattr(c, "requested_rules", None) or []) > len(getattr(hand_cm[t], "requested_rules", None) or [])): hand_cm[t] = c
        class Recorder:
            def __init__(self): self.got = None
            def apply(self, context, file_context, findings): self.got = (list(findings) if findings is not None else None, list(getattr(file_context, "findings", None) or [])); return None
        def fcount_of(lst, p):
            c = collections.Counter()
            for r in lst: c[(tuple((l.start.line, l.start.column, l.end.line, l.end.column) for l in r.locations if str(l.file) == p), str(getattr(r, "finding_id", None)))] += 1
            return c
        ctx = types.SimpleNamespace(directory=d, path_include=[], path_exclude=[], verbose=False, dry_run=False, max_workers=1)
        for tool, (read, gen, ref, det, cls) in READERS.items():
            cm = hand_cm.get(tool)
            rich = [g for g in good[tool] if any(sum(1 for r in g[1] if p in g[1][r]) >= 2 for p in PATHS)]   # some file has findings of >= 2 rules
            if cm is None or len(rich) < 3: continue
            real_tr = cm.transformer
            try:
                for i in range(N_DET // 6):
                    fam = [rnd.choice(rich)] + ([rnd.choice(good[tool])] if rnd.random() < 0.5 else [])
                    files = tuple(str(f) for f, _, _ in fam); want = {}
                    for _, m_, _ in fam: want = union(want, m_)
                    rule_lists = [list(x) for n_ in (1, 2, 3) for x in itertools.permutations(RULES[tool], n_)]
                    for rep in range(3):
                        rs = det(files); before = ms(rs)
                        for pth in PATHS:
                            for rules in rnd.sample(rule_lists, 5):
                                evals["handoff:" + tool] += 1; counters["handoff._process_file"] = counters.get("handoff._process_file", 0) + 1
                                exp = collections.Counter()
                                for r in rules: exp.update(want.get(r, {}).get(pth, {}))
                                rec = Recorder(); cm.transformer = rec
                                try: cm._process_file(d / pth, ctx, rs, rules)
                                except Exception as ex:
                                    viols.append(Violation("C12", f"handoff-raises-{type(ex).__name__}/{tool}", f"_process_file({pth}, rules={rules}) raised {ex!r}", {"tool": tool, "rules": rules, "file": pth}, jobs=[{"layer": "handoff", "tool": tool, "docs": [json.loads(Path(f).read_text()) for f in files]}])); continue
                                got = fcount_of(rec.got[0], pth) if rec.got and rec.got[0] is not None else collections.Counter()
                                if sum(exp.values()) >= 2 and len([r for r in rules if want.get(r, {}).get(pth)]) >= 2: nontrivial.add(("handoff", tool, files, pth, tuple(rules), rep))
                                if got != exp:
                                    kind = "loses" if sum(got.values()) < sum(exp.values()) else ("duplicates" if sum(got.values()) > sum(exp.values()) else "alters")
                                    nr = "several-rules" if len(rules) > 1 else "one-rule"
                                    viols.append(Violation("C12", f"handoff-{kind}/{tool}/{nr}/" + ("first-use" if rep == 0 else "repeated-use-of-cached-results"), f"{cm.id}._process_file({pth}, rules={rules}), use #{rep + 1} of the same result files: the transformer was handed {sum(got.values())} findings, the files hold {sum(exp.values())} for these rules in this file",
                                                           {"tool": tool, "rules": rules, "file": pth, "use": rep + 1, "handed": str(got)[:600], "reference": str(exp)[:600]}, jobs=[{"layer": "handoff", "tool": tool, "docs": [json.loads(Path(f).read_text()) for f in files]}]))
                        after = ms(rs)
                        if after != before:
                            viols.append(Violation("C12", f"handoff-mutates-result-set/{tool}", f"the combined result set of {len(files)} file(s) held {total(before)} findings before the codemod's per-file hand-off and {total(after)} after it (use #{rep + 1})",
                                                   {"tool": tool, "use": rep + 1, "before": str(before)[:600], "after": str(after)[:600]}, jobs=[{"layer": "handoff", "tool": tool, "docs": [json.loads(Path(f).read_text()) for f in files]}]))
            finally: cm.transformer = real_tr
        for x in mon.or_violations[:50]:
            viols.append(Violation("C12", "or-postcondition", "ResultSet.__or__ returned something other than the multiset union of its operands", x))
        counters.update(mon.counts)
    shutil.rmtree(d, ignore_errors=True)
    # (d) end to end
    jobs = e2e_jobs(tier, rnd); res = run_jobs(jobs, timeout=300); inconcl = 0; st = collections.Counter()
    for job, r in zip(jobs, res):
        if r.get("status") != "ok": inconcl += 1; continue
        evals["e2e_runs"] += 1
        for k, n in (r["runs"][0].get("counters") or {}).items(): counters["e2e_" + k] = counters.get("e2e_" + k, 0) + n
        v, s, nt = judge(job, r)
        for x in v: x.jobs = [job]
        viols += v; st.update(s)
        for x in nt: nontrivial.add(("e2e", x))
        if nt and len(samples) < 5: samples.append({"layer": "e2e", "argv": job["argv"], "result_files": job["result_files"], "all_sites_fixed": not v})
    return finish("C12", "exploration", tier, seed, t0, evaluations=sum(evals.values()), nontrivial=nontrivial, violations=viols, min_nontrivial=100, counters=counters, inconclusive_cases=inconcl,
                  deciding_counters=("ResultSet.__or__", "ResultSet.add_result", "e2e_pipe_libcst", "handoff._process_file"), samples=samples, stats=dict(evals) | dict(st), module=__name__,
                  rule="(a) families of 2-4 result sets per tool folded with | and |= vs multiset union; (b) generated Sonar/Semgrep/CodeQL/DefectDojo documents vs reference extraction; (c) detector combination functions over every order of 2-3 files; (d) CLI runs with n=4 sites' findings partitioned over 2-3 files in every order. non-trivial = >=2 non-empty operands / a document with >=1 open located finding / an e2e run; distinct by operands",
                  assumptions=["reference extraction written from the Sonar web-API, SARIF 2.1.0 and DefectDojo v2 layouts, not from the readers", "a finding's identity is its key/id where the format has one (Sonar key, DefectDojo id), else its rule id",
                               "results without a region/textRange have no location and are outside the statement"])

def replay(art):
    out = []
    for job in art.get("jobs") or []:
        if "layer" not in job:
            r = run_jobs([job], timeout=300)[0]
            if r.get("status") == "ok": out += judge(job, r)[0]
            continue
        print("in-process layers are replayed by re-running the check: /venv/bin/python -m vf.check C12 (witness below)"); print(json.dumps(art["witness"], indent=1)[:3000])
    return out

if __name__ == "__main__":
    sys.exit(main())
