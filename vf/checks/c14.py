"""C14: adding a dependency keeps the manifest valid, complete, duplicate-free; at most one manifest updated."""
import ast, base64, collections, configparser, json, os, random, re, sys, tomllib
from packaging.requirements import Requirement, InvalidRequirement
from packaging.utils import canonicalize_name
from vf.runner import run_check, Violation
b64 = lambda b: base64.b64encode(b).decode(); unb = base64.b64decode
TRIG = {"pixee:python/use-defusedxml": ("import xml.sax\nxml.sax.parse('f')\n", "defusedxml"), "pixee:python/harden-pickle-load": ("import pickle\npickle.load(open('f','rb'))\n", "fickling"),
        "pixee:python/flask-enable-csrf-protection": ("from flask import Flask\napp = Flask(__name__)\n", "flask-wtf"),      # a name with a separator: Flask_WTF, flask.wtf and flask-wtf are one package (PEP 503)
        "pixee:python/url-sandbox": ("import requests\nfrom flask import request\ndef v():\n    requests.get(request.args['u'])\n", "security"),
        "pixee:python/sandbox-process-creation": ("import subprocess\nfrom flask import request\ndef v():\n    subprocess.run(request.args['c'])\n", "security")}
PKGS = ["requests", "flask>=2", "Django==4.2", "numpy ; python_version<'3.12'", "uvicorn[standard]>=0.20", "typing_extensions"]

def gen_requirements(rnd, present):
    lines = []
    if rnd.random() < 0.4: lines.append("# pinned deps")
    if rnd.random() < 0.3: lines.append("-r base.txt")
    for p in rnd.sample(PKGS, rnd.randint(0, 4)):
        lines.append(p + ("  # why" if rnd.random() < 0.2 else ""))
        if rnd.random() < 0.2: lines.append("")
    if present: lines.insert(rnd.randint(0, len(lines)), present)
    nl = rnd.choice(("\n", "\n", "\r\n"))
    text = nl.join(lines) + (nl if rnd.random() < 0.7 else "")
    return text
def gen_pyproject(rnd, present):
    deps = rnd.sample(PKGS, rnd.randint(0, 3)) + ([present] if present else [])
    style = rnd.choice(("inline", "multi", "poetry", "nodeps"))
    if style == "inline": body = '[project]\nname = "x"\nversion = "1"\ndependencies = [' + ", ".join(json.dumps(d) for d in deps) + "]\n"
    elif style == "multi": body = '[project]\nname = "x"\ndependencies = [\n' + "".join(f"    {json.dumps(d)},{'  # c' if rnd.random() < 0.2 else ''}\n" for d in deps) + "]\n"
    elif style == "poetry":
        spec = lambda: rnd.choice(('"*"', '"^1.2"', '"~1.2"', '">=1,<3"', '{version = "^1.0", optional = true}', '{version = "*", extras = ["x"]}'))
        body = '[tool.poetry]\nname = "x"\nversion = "1"\n\n[tool.poetry.dependencies]\npython = "^3.10"\n' + "".join(f'{Requirement(d).name} = {spec()}\n' for d in deps)
        if rnd.random() < 0.6:
            # a type checker is declared: the writer also declares type stubs next to it; stubs the user already declared (any constraint) must survive
            table = rnd.choice(("tool.poetry.dev-dependencies", "tool.poetry.group.test.dependencies", "tool.poetry.group.dev.dependencies", "tool.poetry.dependencies"))
            stubs = "".join(f'{n} = {spec()}\n' for n in rnd.sample(["types-defusedxml", "types-WTForms", "types-requests"], rnd.randint(0, 2)))
            checker = f'{rnd.choice(("mypy", "pyright"))} = "^1.0"\n'
            body += (checker + stubs) if table == "tool.poetry.dependencies" else f"\n[{table}]\n" + checker + stubs
    else: body = '[project]\nname = "x"\n'
    return body + "\n[tool.black]\nline-length = 88\n"
def gen_setup_py(rnd, present):
    deps = rnd.sample(PKGS, rnd.randint(0, 3)) + ([present] if present else [])
    if rnd.random() < 0.5: lst = "[" + ", ".join(json.dumps(d) for d in deps) + "]"
    else: lst = "[\n" + "".join(f"        {json.dumps(d)},\n" for d in deps) + "    ]"
    return f"from setuptools import setup\n\nsetup(\n    name=\"x\",\n    version=\"1\",\n    install_requires={lst},\n    python_requires=\">=3.9\",\n)\n"
def gen_setup_cfg(rnd, present):
    deps = rnd.sample(PKGS, rnd.randint(0, 3)) + ([present] if present else [])
    inline = [d for d in deps if ";" not in d][:1]
    if rnd.random() < 0.3 and inline: ir = "install_requires = " + inline[0] + "\n"   # inline form: ONE requirement (setuptools splits this value on newlines or ';', never on ',')
    else: ir = "install_requires =\n" + "".join(f"    {d}\n" for d in deps)
    # a requirement of install_requires is often named again in an extra (verbatim, or as the tail of another project's name): those lists are unrelated content
    more = ""
    if deps and not ir.startswith("install_requires = ") and rnd.random() < 0.5:
        last = deps[-1]; more = rnd.choice((f"    {last}\n", f"    pytest-{last}\n", f"all =\n    {deps[0]}\n    {last}\n", f"    x{last}\n    other\n"))
    return "[metadata]\nname = x\n# comment\n\n[options]\npackages = find:\n" + ir + "\n[options.extras_require]\ndev =\n    pytest\n" + more
GEN = {"requirements.txt": gen_requirements, "pyproject.toml": gen_pyproject, "setup.py": gen_setup_py, "setup.cfg": gen_setup_cfg}

def declared_entries(kind, text):
    """every declared requirement with its exact value: {(where, canonical name): value} - 'keeps every previously declared requirement' means these survive unchanged"""
    out = {}
    if kind == "requirements.txt":
        for l in text.splitlines():
            s_ = l.split("#")[0].strip()
            if s_ and not s_.startswith("-"): out[("requirements", canonicalize_name(Requirement(s_).name))] = " ".join(s_.split())
    elif kind == "pyproject.toml":
        d = tomllib.loads(text)
        for dep in d.get("project", {}).get("dependencies", []) or []: out[("project.dependencies", canonicalize_name(Requirement(dep).name))] = " ".join(dep.split())
        def walk(node, path):
            if isinstance(node, dict):
                for k, v_ in node.items():
                    if k in ("dependencies", "dev-dependencies") and isinstance(v_, dict):
                        for name, spec in v_.items(): out[(".".join(path + [k]), canonicalize_name(name))] = json.dumps(spec, sort_keys=True)
                    else: walk(v_, path + [k])
        walk(d.get("tool", {}).get("poetry", {}), ["tool.poetry"])
    elif kind == "setup.py":
        for n in ast.walk(ast.parse(text)):
            if isinstance(n, ast.Call) and getattr(n.func, "id", None) == "setup":
                for k in n.keywords:
                    if k.arg == "install_requires":
                        for e in k.value.elts: out[("install_requires", canonicalize_name(Requirement(e.value).name))] = " ".join(e.value.split())
    else:
        cp = configparser.ConfigParser(); cp.read_string(text)
        raw = cp["options"].get("install_requires", "") if "options" in cp else ""
        for part in (raw.splitlines() if "\n" in raw.strip() else [raw]):
            if part.strip():
                try: out[("install_requires", canonicalize_name(Requirement(part.strip()).name))] = " ".join(part.split())
                except Exception: pass
    return out

def parse(kind, text):
    """-> (set of canonical names with multiplicity Counter, other-content fingerprint) or raises"""
    names = collections.Counter()
    if kind == "requirements.txt":
        other = []
        for l in text.splitlines():
            s = l.split("#")[0].strip()
            if not s or s.startswith("-"): other.append(l.strip()); continue
            names[canonicalize_name(Requirement(s).name)] += 1
        return names, other
    if kind == "pyproject.toml":
        d = tomllib.loads(text)
        for dep in d.get("project", {}).get("dependencies", []) or []: names[canonicalize_name(Requirement(dep).name)] += 1
        for k in (d.get("tool", {}).get("poetry", {}).get("dependencies", {}) or {}):
            if k != "python": names[canonicalize_name(k)] += 1
        o = json.loads(json.dumps(d)); o.get("project", {}).pop("dependencies", None)
        def strip(node):
            if isinstance(node, dict):
                for k in list(node):
                    if k in ("dependencies", "dev-dependencies") and isinstance(node[k], dict): node.pop(k)
                    else: strip(node[k])
        strip(o.get("tool", {}).get("poetry", {}))
        return names, o
    if kind == "setup.py":
        t = ast.parse(text); other = []
        for n in ast.walk(t):
            if isinstance(n, ast.Call) and getattr(n.func, "id", None) == "setup":
                for k in n.keywords:
                    if k.arg == "install_requires":
                        for e in k.value.elts: names[canonicalize_name(Requirement(e.value).name)] += 1
                    else: other.append((k.arg, ast.dump(k.value)))
        return names, other
    cp = configparser.ConfigParser(); cp.read_string(text)
    raw = cp["options"].get("install_requires", "") if "options" in cp else ""
    # setuptools semantics for install_requires (list-semi): split on newlines if the value has any, else on ';'
    parts = raw.splitlines() if "\n" in raw.strip() else ([raw] if ";" not in raw or re.search(r";\s*(python_|sys_|os_|platform_|implementation_|extra)", raw) else raw.split(";"))
    for part in parts:
        if part.strip(): names[canonicalize_name(Requirement(part.strip()).name)] += 1
    other = {s: {k: v for k, v in cp[s].items() if k != "install_requires"} for s in cp.sections()}
    return names, other

def plan(tier, seed):
    rnd = random.Random(f"C14:{seed}"); jobs = []
    n = 150 if tier == "quick" else 1500
    for k in range(n):
        cid = rnd.choice(sorted(TRIG) + [c_ for c_ in sorted(TRIG) if "sandbox" not in c_] * 2); src, pkg = TRIG[cid]       # (the two semgrep-detected ones cost a semgrep call each: a sixth of the cases)
        kinds = rnd.sample(sorted(GEN), rnd.choice((1, 1, 1, 2, 0)))
        presence = rnd.choice((None, None, None, pkg, pkg.upper() + ">=0.1", pkg.capitalize(), pkg.replace("x", "X") + "==0.0.1", pkg.replace("-", "_") + ">=0.1", pkg.replace("-", ".").title(), pkg.replace("-", "_").upper()))
        files = {"app.py": b64(src.encode())}; mf = {}
        for i, kind in enumerate(kinds):
            text = GEN[kind](rnd, presence if i == 0 else None)
            try: parse(kind, text)
            except Exception: continue
            mf[kind] = text; files[kind] = b64(text.encode())
        jobs.append({"id": f"m{k}", "cid": cid, "pkg": pkg, "presence": presence, "manifests": mf, "files": files, "argv": ["{proj}", "--output", "{out}", "--codemod-include", cid], "repeat": 2, "monitors": {"snap": False}})
    # enumerated: poetry manifest x where the type checker lives x how the user already declared the stub package x codemods whose dependency has stubs
    STUB = {"pixee:python/use-defusedxml": ("import xml.sax\nxml.sax.parse('f')\n", "defusedxml", "types-defusedxml"), "pixee:python/flask-enable-csrf-protection": ("from flask import Flask\napp = Flask(__name__)\n", "flask-wtf", "types-WTForms")}
    k = 0
    for cid, (src, pkg, stub) in sorted(STUB.items()):
        for table in ("tool.poetry.dev-dependencies", "tool.poetry.group.test.dependencies", "tool.poetry.dependencies"):
            for spec in ('"*"', '"^0.7.0"', '{version = "^0.7.0", optional = true}', None):
                if tier == "quick" and (k % 2) != (seed % 2) and spec is not None: k += 1; continue
                k += 1
                checker = 'mypy = "^1.0"\n' + (f"{stub} = {spec}\n" if spec else "")
                text = '[tool.poetry]\nname = "x"\nversion = "1"\n\n[tool.poetry.dependencies]\npython = "^3.10"\nrequests = "^2.0"\n' + (checker if table == "tool.poetry.dependencies" else f"\n[{table}]\n" + checker)
                jobs.append({"id": f"stub|{cid}|{table}|{spec}", "cid": cid, "pkg": pkg, "presence": None, "manifests": {"pyproject.toml": text}, "files": {"app.py": b64(src.encode()), "pyproject.toml": b64(text.encode())},
                             "argv": ["{proj}", "--output", "{out}", "--codemod-include", cid], "repeat": 2, "monitors": {"snap": False}})
    # manifests that are not UTF-8 (PowerShell's `pip freeze > requirements.txt` is UTF-16 with a BOM), alone and next to a usable fallback manifest
    ENC = {"utf-16": "requests\nflask==2.0\n".encode("utf-16"), "utf-16-crlf": "requests\r\nflask==2.0\r\n".encode("utf-16"), "latin-1": "requests  # d\xe9pendance\nflask\n".encode("latin-1"), "utf-8-bom": b"\xef\xbb\xbfrequests\nflask\n"}
    for ek, data in sorted(ENC.items()):
        for fb in (None, "setup.cfg", "setup.py"):
            for cid, (src, pkg) in sorted(TRIG.items()):
                files = {"app.py": b64(src.encode()), "requirements.txt": b64(data)}; mf = {}
                if fb == "setup.cfg": mf[fb] = "[metadata]\nname = x\n\n[options]\ninstall_requires =\n    requests\n"
                if fb == "setup.py": mf[fb] = 'from setuptools import setup\nsetup(\n    name="x",\n    install_requires=[\n        "requests",\n    ],\n)\n'
                for k_, t_ in mf.items(): files[k_] = b64(t_.encode())
                jobs.append({"id": f"enc|{ek}|{fb}|{cid}", "cid": cid, "pkg": pkg, "presence": None, "manifests": mf, "encoded": {"name": "requirements.txt", "encoding": ek, "bytes": b64(data)}, "files": files,
                             "argv": ["{proj}", "--output", "{out}", "--codemod-include", cid], "repeat": 2, "monitors": {"snap": False}})
    # several dependency-adding codemods in ONE run: the same package needed twice (url-sandbox and sandbox-process-creation both need `security`), different packages
    MULTI = [(["pixee:python/url-sandbox", "pixee:python/sandbox-process-creation"], ["security"], "import requests\nimport subprocess\nfrom flask import request\ndef v():\n    requests.get(request.args['u'])\n    subprocess.run(request.args['c'])\n"),
             (["pixee:python/sandbox-process-creation", "pixee:python/url-sandbox"], ["security"], "import requests\nimport subprocess\nfrom flask import request\ndef v():\n    requests.get(request.args['u'])\n    subprocess.run(request.args['c'])\n"),
             (["pixee:python/use-defusedxml", "pixee:python/harden-pickle-load"], ["defusedxml", "fickling"], "import xml.sax\nimport pickle\nxml.sax.parse('f')\npickle.load(open('f', 'rb'))\n"),
             (["pixee:python/harden-pickle-load", "pixee:python/use-defusedxml", "pixee:python/flask-enable-csrf-protection"], ["defusedxml", "fickling", "flask-wtf"], "import xml.sax\nimport pickle\nfrom flask import Flask\napp = Flask(__name__)\nxml.sax.parse('f')\npickle.load(open('f', 'rb'))\n")]
    for k in range(16 if tier == "quick" else 96):
        cids, pkgs, src = MULTI[k % len(MULTI)]
        kind = sorted(GEN)[(k // len(MULTI)) % 4]
        first_pkg = TRIG[cids[0]][1]
        declared_first = first_pkg + ">=0.1" if (k // len(MULTI)) % 2 else None      # the package of the FIRST codemod is already declared: the later codemods' packages must still arrive
        text = GEN[kind](rnd, declared_first)
        try: parse(kind, text)
        except Exception: continue
        jobs.append({"id": f"multi{k}", "cid": ",".join(cids), "pkg": pkgs[0], "pkgs": pkgs, "presence": declared_first, "manifests": {kind: text}, "files": {"app.py": b64(src.encode()), kind: b64(text.encode())},
                     "argv": ["{proj}", "--output", "{out}", "--codemod-include", ",".join(cids)], "repeat": 2, "monitors": {"snap": False}})
    return jobs

def judge(job, res):
    v = []; st = collections.Counter(); nt = []
    r1, r2 = res["runs"]; pkg = canonicalize_name(job["pkg"])
    w = {"codemod": job["cid"], "presence": job["presence"], "manifests": job["manifests"]}
    if r1["rc"] != 0 or r1["exc"]:
        key = "run-failed" + ("/non-utf8-manifest/" + job["encoded"]["encoding"] if job.get("encoded") else "")
        v.append(Violation("C14", key, f"rc={r1['rc']} exc={r1['exc']}", dict(w, log=r1["log"][-600:]))); return v, st, nt
    if job.get("encoded"):
        enc = job["encoded"]; got = r1["tree"].get(enc["name"]); st["non_utf8_manifest_cases"] += 1
        if got != "F:" + enc["bytes"]:
            codec = {"utf-16-crlf": "utf-16", "utf-8-bom": "utf-8-sig"}.get(enc["encoding"], enc["encoding"])
            try:
                text = unb(got[2:]).decode(codec)
                names = [canonicalize_name(Requirement(l.split("#")[0].strip()).name) for l in text.splitlines() if l.split("#")[0].strip()]
                if names.count(pkg) != 1 or "requests" not in names or "flask" not in names: raise ValueError(f"requirements after: {names}")
            except Exception as ex:
                v.append(Violation("C14", "non-utf8-manifest-damaged/" + enc["encoding"], f"{enc['name']} ({enc['encoding']}) was rewritten and is no longer a valid manifest in its encoding: {ex!r}"[:300], w))
        elif job["manifests"]:
            fb = next(iter(job["manifests"])); after_fb = unb(r1["tree"][fb][2:]).decode("utf-8")
            if after_fb == job["manifests"][fb] and "unable to automatically add" not in r1["report"]["results"][0]["description"]:
                v.append(Violation("C14", "fallback-manifest-not-tried", f"{enc['name']} could not be updated, {fb} could, but nothing was updated and the report does not say so", w))
    if job["manifests"]: nt.append(job["id"])
    updated = []
    for kind, before in job["manifests"].items():
        after = unb(r1["tree"][kind][2:]).decode("utf-8")
        if after != before: updated.append(kind)
        try: nb, ob = parse(kind, before)
        except Exception: continue
        try: na, oa = parse(kind, after)
        except Exception as ex:
            key = f"manifest-no-longer-parses/{kind}"
            if kind == "setup.cfg" and re.search(r"^install_requires\s*=\s*\S", before, flags=re.M): key = "setup-cfg-inline-list-comma-joined"   # value on the key line: the writer appends ', <req>,' to it
            v.append(Violation("C14", key, f"{kind} no longer parses after the update: {ex!r}"[:200], dict(w, after=after))); continue
        try:
            db, da = declared_entries(kind, before), declared_entries(kind, after)
            altered = {k: (v_, da.get(k)) for k, v_ in db.items() if da.get(k) != v_}
            if altered and not (nb - na):
                k0 = sorted(altered)[0]
                v.append(Violation("C14", f"declared-requirement-altered/{kind}/" + ("stub-package" if k0[1].startswith("types-") else "package"), f"previously declared {k0[1]} in {k0[0]} changed from {altered[k0][0]} to {altered[k0][1]}", dict(w, after=after)))
            st["declared_entries_compared"] += len(db)
        except Exception as ex: st["declared_oracle_error:" + type(ex).__name__ + ":" + str(ex)[:80]] += 1
        lost = nb - na
        if lost: v.append(Violation("C14", f"requirement-lost/{kind}", f"lost {dict(lost)}", dict(w, after=after)))
        if oa != ob: v.append(Violation("C14", f"unrelated-content-changed/{kind}", "non-dependency content differs", dict(w, after=after)))
        for pk in [canonicalize_name(x) for x in job.get("pkgs", [job["pkg"]])]:
            if na[pk] > 1: v.append(Violation("C14", (f"duplicate-requirement/{kind}" + ("/several-codemods-one-run" if "pkgs" in job else "")) if nb[pk] == 0 else "name-not-canonicalised", f"{pk} declared {na[pk]} times", dict(w, after=after)))
        if "pkgs" in job:
            gained = [pk for pk in map(canonicalize_name, job["pkgs"]) if na[pk] > nb[pk]]; absent = [pk for pk in map(canonicalize_name, job["pkgs"]) if na[pk] == 0]
            if gained and absent: v.append(Violation("C14", f"needed-requirement-missing/{kind}/several-codemods-one-run", f"{kind} gained {gained} but not {absent}, which a codemod of the same run needs as well", dict(w, after=after)))
            if not gained and absent and nb[pkg] >= 1 and len(job["manifests"]) == 1:
                # the manifest holds a non-empty requirement list (it declares the first codemod's package): every writer can append to it, so "unable to add" is not an excuse here
                v.append(Violation("C14", f"needed-requirement-missing/{kind}/several-codemods-one-run", f"{kind} declares {pkg} already; {absent} needed by later codemods of the same run never arrived", dict(w, after=after)))
        if nb[pkg] >= 1 and after != before and "pkgs" not in job: 
            if na[pkg] <= 1: v.append(Violation("C14", f"touched-although-declared/{kind}", "manifest modified although package already declared", dict(w, after=after)))
        extra = (na - nb); extra.pop(pkg, None)
        for pk in job.get("pkgs", []): extra.pop(canonicalize_name(pk), None)
        extra = {k: n for k, n in extra.items() if not k.startswith("types-")}
        if extra: v.append(Violation("C14", f"unexpected-requirements-added/{kind}", str(extra), dict(w, after=after)))
    if job.get("encoded") and r1["tree"].get(job["encoded"]["name"]) != "F:" + job["encoded"]["bytes"]: updated.append(job["encoded"]["name"])
    if len(updated) > 1: v.append(Violation("C14", "several-manifests-updated", str(updated), w))
    desc = r1["report"]["results"][0]["description"]
    if not updated and "unable to automatically add" not in desc and not any(True for _ in []):
        declared = False
        for kind, before in job["manifests"].items():
            try: declared |= parse(kind, before)[0][pkg] > 0
            except Exception: pass
        if not declared: v.append(Violation("C14", "no-update-and-no-notice", "no manifest updated and description does not say so", w))
    # second run adds nothing
    if r2["rc"] == 0:
        for kind in job["manifests"]:
            if r2["tree"].get(kind) != r1["tree"].get(kind): v.append(Violation("C14", f"second-run-adds-again/{kind}", "second run modified the manifest again", w))
    return v, st, nt

def main():
    return run_check("C14", "exploration", plan, judge, "generated manifests (4 formats, comments, markers, extras, -r, inline/multi-line, poetry, CRLF, missing final newline, already-declared under other spellings) x dependency-adding codemods x 0-2 manifests, run twice; non-trivial = a manifest existed", 20, deciding_counters=("_apply",), timeout=300, module=__name__)

if __name__ == "__main__":
    sys.exit(main())
