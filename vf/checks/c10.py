"""PROTOTYPE C10: an unprocessable file is left intact, reported, and does not disturb the rest (fault enumeration)."""
import base64, collections, json, os, random, sys
from vf.runner import run_check, Violation
b64 = lambda b: base64.b64encode(b).decode()
PIPES = {
    "detector-less": {"argv": ["--codemod-include", "pixee:python/use-set-literal,pixee:python/unused-imports"], "good": b"import os\nx = set([1])\n", "bad_prefix": b"import os\nx = set([1])\n"},
    "semgrep-detected": {"argv": ["--codemod-include", "pixee:python/requests-verify"], "good": b"import requests\nrequests.get('u', verify=False)\n", "bad_prefix": b"import requests\nrequests.get('u', verify=False)\n"},
    "sast": {"argv": ["--sonar-hotspots-json", "{res}/sonar.json", "--codemod-include", "sonar:python/secure-random"], "good": b"import random\nrandom.random()\n", "bad_prefix": b"import random\nrandom.random()\n"},
}
BAD = {"invalid-utf8": b"s = '\xff\xfe'\n", "syntax-error": b"def (:\n", "latin1-cookie": b"# -*- coding: latin-1 -*-\ns = '\xe9'\n"}
def plan(tier, seed):
    rnd = random.Random(f"C10:{seed}"); jobs = []
    for pname, P in PIPES.items():
        for n in ((3,) if tier == "quick" else (3, 5, 8)):
            names = [f"f{i}.py" for i in range(n)]
            rf = {"sonar.json": json.dumps({"hotspots": [{"rule": "python:S2245", "status": "OPEN", "component": "proj:" + nm, "textRange": {"startLine": 2, "endLine": 2, "startOffset": 0, "endOffset": 15}} for nm in names]})} if pname == "sast" else {}
            base = {nm: b64(P["good"]) for nm in names}
            argv = ["{proj}", "--output", "{out}"] + P["argv"]
            jobs.append({"id": f"{pname}|n{n}|baseline", "pipe": pname, "fault": None, "pos": None, "files": base, "result_files": rf, "argv": argv, "monitors": {"snap": False}, "group": f"{pname}|n{n}"})
            positions = range(n) if tier != "quick" else [0, n - 1]
            for i in positions:
                for kind, tail in BAD.items():
                    files = dict(base); files[names[i]] = b64(P["bad_prefix"] + tail)
                    jobs.append({"id": f"{pname}|n{n}|{kind}@{i}", "pipe": pname, "fault": kind, "pos": i, "bad": names[i], "files": files, "result_files": rf, "argv": argv, "monitors": {"snap": False}, "group": f"{pname}|n{n}", "bad_bytes": files[names[i]]})
                for kind in ("vanish", "raise_transform"):
                    jobs.append({"id": f"{pname}|n{n}|{kind}@{i}", "pipe": pname, "fault": kind, "pos": i, "bad": names[i], "files": base, "result_files": rf, "argv": argv, "monitors": {"snap": False, "faults": [{"kind": kind, "file": names[i]}]}, "group": f"{pname}|n{n}", "bad_bytes": base[names[i]]})
                for j in ((3, 17) if tier == "quick" else (1, 2, 3, 5, 8, 13, 21, 34, 40)):
                    jobs.append({"id": f"{pname}|n{n}|failpoint{j}@{i}", "pipe": pname, "fault": "failpoint", "pos": i, "bad": names[i], "files": base, "result_files": rf, "argv": argv, "monitors": {"snap": False, "faults": [{"kind": "failpoint", "file": names[i], "j": j}]}, "group": f"{pname}|n{n}", "bad_bytes": base[names[i]]})
    return jobs

_base = {}; _pending = collections.defaultdict(list)
def per_file(run):
    out = {}
    rep = run["report"] or {"results": []}
    for name, blob in run["tree"].items():
        out[name] = {"bytes": blob, "changes": [(r["codemod"], cs["diff"], [(c["lineNumber"], c["description"]) for c in cs["changes"]]) for r in rep["results"] for cs in r["changeset"] if cs["path"] == name]}
    return out

def evaluate(job, run, base):
    v = []; cm = job["pipe"]; w = {"case": job["id"], "log": run["log"][-700:]}
    if run["rc"] != 0 or run["exc"]:
        return [Violation("C10", f"run-aborted/{job['fault']}/{cm}", f"rc={run['rc']} exc={run['exc']}", w)]
    pf = per_file(run); bad = job["bad"]
    injected = job["fault"] in ("invalid-utf8", "syntax-error", "latin1-cookie") or any(e["k"] == "fault" for e in run["trace"])
    if not injected: return None  # fault never hit: not a decisive case
    for name, b in base.items():
        if name == bad: continue
        if pf.get(name) != b: v.append(Violation("C10", f"other-file-disturbed/{job['fault']}/{cm}", f"{name} outcome differs from the fault-free run", dict(w, file=name)))
    if job["fault"] != "vanish":
        if pf.get(bad, {}).get("bytes") != "F:" + job["bad_bytes"]: v.append(Violation("C10", f"bad-file-modified/{job['fault']}/{cm}", f"{bad} was modified", w))
    failed = {os.path.basename(f) for r in run["report"]["results"] for f in (r.get("failedFiles") or [])}
    if bad not in failed: v.append(Violation("C10", f"not-listed-failed/{job['fault']}/{cm}", f"{bad} not in failedFiles", w))
    if job["pipe"] == "sast":
        unf = [u for r in run["report"]["results"] for u in (r.get("unfixedFindings") or []) if u["path"] == bad]
        if not unf: v.append(Violation("C10", f"findings-not-unfixed/{job['fault']}/{cm}", f"findings of {bad} not reported unfixed", w))
    return v

def judge(job, res):
    v = []; st = collections.Counter(); nt = []
    run = res["runs"][0]
    if job["fault"] is None:
        _base[job["group"]] = per_file(run)
        for j2, r2 in _pending.pop(job["group"], []):
            x = evaluate(j2, r2, _base[job["group"]])
            if x is None: st["fault_not_hit"] += 1
            else: nt.append(j2["id"]); v += x
        return v, st, nt
    if job["group"] not in _base:
        _pending[job["group"]].append((job, run)); return v, st, nt
    x = evaluate(job, run, _base[job["group"]])
    if x is None: st["fault_not_hit"] += 1
    else: nt.append(job["id"]); v += x
    return v, st, nt

def main():
    return run_check("C10", "fault_enumeration", plan, judge, "n files x fault kind (bad bytes, vanish, transformer raise, sys.monitoring failpoint j) x position x pipeline kind; differential against the fault-free run; non-trivial = fault actually injected", 20, deciding_counters=("process_file",), timeout=300, module=__name__)

if __name__ == "__main__":
    sys.exit(main())
