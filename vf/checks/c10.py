"""C10: an unprocessable file is left intact, reported as failed with its findings unfixed, and does not disturb the rest of the run.

Fault enumeration over  pipeline kind x project size x fault kind x fault position (file index i, and for in-transformer faults the
j-th repository function entered while transforming that file, j enumerated up to the number of entries observed in a probe run).
Monitors: H-file (fault injection at the per-file work item: delete the file), H-fp (sys.monitoring PY_START failpoints inside
LibcstResultTransformer.transform), transformer wrapper (raise at entry), H-pipe/H-rep.  Oracle: differential against the fault-free run of
the same project, restricted to the other files and codemods; the bad file's bytes; failedFiles; per-finding unfixedFindings; exit status."""
import base64, collections, json, os, random, sys
from vf.runner import run_check, Violation, run_jobs, strip_job
b64 = lambda b: base64.b64encode(b).decode()

XML_GOOD = b'<?xml version="1.0" encoding="utf-8"?>\n<root>\n  <el k="v">t</el>\n  <other/>\n</root>\n'
PIPES = {
    "detector-less": {"argv": ["--codemod-include", "pixee:python/use-set-literal,pixee:python/unused-imports"], "good": b"import os\nx = set([1])\ny = set([2, 3])\n", "ext": ".py"},
    # a codemod that also records a dependency for the project's manifest: the manifest is one of the "other files" whose outcome must not depend on the bad file
    "dependency": {"argv": ["--codemod-include", "pixee:python/use-defusedxml"], "good": b"import xml.sax\nxml.sax.parse('f')\nxml.sax.parseString(b'<a/>', None)\n", "ext": ".py", "extra_files": {"requirements.txt": b"requests==2.31.0\n"}},
    "semgrep-detected": {"argv": ["--codemod-include", "pixee:python/requests-verify"], "good": b"import requests\nrequests.get('u', verify=False)\nrequests.post('v', verify=False)\n", "ext": ".py"},
    "sast": {"argv": ["--sonar-hotspots-json", "{res}/sonar.json", "--codemod-include", "sonar:python/secure-random"], "good": b"import random\nx = random.random()\ny = random.randint(0, 9)\n", "ext": ".py",
             "findings": [(2, 4, 19), (3, 4, 24)]},
    "regex-plugin": {"argv": ["--path-include", "*.txt", "--codemod-include", "vf:python/rx"], "good": b"alpha foo\nbeta\nfoo foo\n", "ext": ".txt", "plugins": [{"kind": "regex", "name": "rx", "pattern": "foo", "replacement": "bar"}]},
    "xml-plugin": {"argv": ["--path-include", "*.xml", "--codemod-include", "vf:python/xa"], "good": XML_GOOD, "ext": ".xml", "plugins": [{"kind": "xml-attr", "name": "xa", "map": {"el": {"k": "NEW"}}}]},
}
BAD_PY = {"invalid-utf8": b"s = '\xff\xfe'\n", "nul-byte": b"s = 'a\x00b'\n", "syntax-error": b"def (:\n", "latin1-cookie": None}
def bad_bytes(pname, kind, good):
    if pname in ("regex-plugin",):
        return {"invalid-utf8": good + b"foo \xff\xfe\n", "nul-byte": good + b"foo\x00\n"}.get(kind)
    if pname == "xml-plugin":
        return {"invalid-utf8": good.replace(b"t</el>", b"\xff\xfe</el>"), "syntax-error": good.replace(b"</root>", b"<unclosed>"), "nul-byte": good.replace(b"t</el>", b"\x00</el>")}.get(kind)
    if kind == "latin1-cookie": return b"# -*- coding: latin-1 -*-\n" + good + b"s = '\xe9'\n"
    lines = good.splitlines(keepends=True)
    if kind == "invalid-utf8-before-site-same-line":      # undecodable bytes in front of the fixable construct, on its own line
        return b"".join(lines[:1]) + b"s = '\xff\xfe'; " + lines[1] + b"".join(lines[2:]) if len(lines) > 1 else None
    if kind == "invalid-utf8-inside-site":                # ... inside it (a string literal argument)
        if b"'" not in lines[1]: return None
        i = lines[1].index(b"'"); return lines[0] + lines[1][:i + 1] + b"caf\xe9\xe8" + lines[1][i + 1:] + b"".join(lines[2:])
    if kind == "invalid-utf8-after-site-same-line":
        return lines[0] + lines[1].rstrip(b"\n") + b"; s = '\xff'\n" + b"".join(lines[2:])
    return good + BAD_PY[kind]

def mkjob(pname, n, fault, pos, files, rf, mon, group, bad=None, badb=None, extra=None):
    P = PIPES[pname]
    j = {"id": f"{pname}|n{n}|{fault or 'baseline'}" + (f"@{pos}" if pos is not None else "") + (extra or ""), "pipe": pname, "fault": fault, "pos": pos, "bad": bad, "files": files, "result_files": rf,
         "argv": ["{proj}", "--output", "{out}"] + P["argv"], "monitors": mon, "group": group, "bad_bytes": badb, "n_findings": len(P.get("findings", []))}
    if P.get("plugins"): j["plugins"] = P["plugins"]
    return j

def plan(tier, seed):
    rnd = random.Random(f"C10:{seed}"); jobs = []; quick = tier == "quick"
    probes = []
    for pname, P in PIPES.items():
        for n in ((3,) if quick else (3, 5, 8)):
            names = [f"f{i}{P['ext']}" for i in range(n)]
            rf = {"sonar.json": json.dumps({"hotspots": [{"key": f"H-{nm}-{k}", "rule": "python:S2245", "status": "TO_REVIEW", "component": "proj:" + nm, "textRange": {"startLine": l, "endLine": l, "startOffset": a, "endOffset": b}}
                                                         for nm in names for k, (l, a, b) in enumerate(P["findings"])]})} if pname == "sast" else {}
            base = {nm: b64(P["good"]) for nm in names}
            base.update({k_: b64(v_) for k_, v_ in (P.get("extra_files") or {}).items()})
            group = f"{pname}|n{n}"
            jobs.append(mkjob(pname, n, None, None, base, rf, {"snap": False}, group))
            cms_ = P["argv"][P["argv"].index("--codemod-include") + 1].split(",")
            if len(cms_) > 1:
                # what each codemod does to the ORIGINAL files on its own: the yardstick for a codemod that runs after another one failed on a file
                for cm_ in cms_:
                    jb = mkjob(pname, n, "only", None, base, rf, {"snap": False}, group, extra="|" + cm_); jb["only_cm"] = cm_
                    jb["argv"] = [a if a != ",".join(cms_) else cm_ for a in jb["argv"]]; jobs.append(jb)
            positions = list(range(n)) if not quick else [0, n - 1]
            for i in positions:
                for kind in ("invalid-utf8", "nul-byte", "syntax-error", "latin1-cookie", "invalid-utf8-before-site-same-line", "invalid-utf8-inside-site", "invalid-utf8-after-site-same-line"):
                    if kind.startswith("invalid-utf8-") and P["ext"] != ".py": continue
                    bb = bad_bytes(pname, kind, P["good"])
                    if bb is None: continue
                    files = dict(base); files[names[i]] = b64(bb)
                    jobs.append(mkjob(pname, n, kind, i, files, rf, {"snap": False}, group, names[i], files[names[i]]))
                # the same faults under options that only change what is logged (--verbose, --log-format json): isolation and the report are those of the plain run
                for opt in (["--verbose"], ["--log-format", "json"], ["--verbose", "--log-format", "json"]):
                    for kind in ("invalid-utf8", "syntax-error", "nul-byte"):
                        bb = bad_bytes(pname, kind, P["good"])
                        if bb is None: continue
                        files = dict(base); files[names[i]] = b64(bb)
                        jo = mkjob(pname, n, kind, i, files, rf, {"snap": False}, group, names[i], files[names[i]], extra="|opt:" + "+".join(o.lstrip("-") for o in opt if o.startswith("--")))
                        jo["argv"] = jo["argv"] + opt; jo["options"] = opt; jobs.append(jo)
                files = dict(base); files[names[i]] = b64(b"")
                jobs.append(mkjob(pname, n, "empty", i, files, rf, {"snap": False}, group, names[i], b64(b"")))
                jobs.append(mkjob(pname, n, "vanish", i, base, rf, {"snap": False, "faults": [{"kind": "vanish", "file": names[i]}]}, group, names[i], base[names[i]]))
                jobs.append(mkjob(pname, n, "vanish_before_detector", i, base, rf, {"snap": False, "faults": [{"kind": "vanish_before_detector", "file": names[i]}]}, group, names[i], base[names[i]]))
                if P["ext"] == ".py":
                    jobs.append(mkjob(pname, n, "raise_transform", i, base, rf, {"snap": False, "faults": [{"kind": "raise_transform", "file": names[i]}]}, group, names[i], base[names[i]]))
            if P["ext"] == ".py":
                # probe: how many repository functions are entered while transforming one file (failpoint far beyond the end never fires)
                probes.append((pname, n, names, base, rf, group))
    # several workers: the failing file is in flight together with healthy ones (seeded delays and LINE-event yield injection spread the interleavings);
    # the failure belongs to the file that failed, whatever else is being processed at that moment
    for pname in ("detector-less", "sast", "dependency"):
        P = PIPES[pname]; n = 8
        names = [f"f{i}{P['ext']}" for i in range(n)]
        rf = {"sonar.json": json.dumps({"hotspots": [{"key": f"H-{nm}-{k}", "rule": "python:S2245", "status": "TO_REVIEW", "component": "proj:" + nm, "textRange": {"startLine": l, "endLine": l, "startOffset": a, "endOffset": b}}
                                                         for nm in names for k, (l, a, b) in enumerate(P["findings"])]})} if pname == "sast" else {}
        base = {nm: b64(P["good"] + b"".join(b"pad_%d = %d\n" % (k, k) for k in range(40 * (i % 3)))) for i, nm in enumerate(names)}
        base.update({k_: b64(v_) for k_, v_ in (P.get("extra_files") or {}).items()})
        group = f"{pname}|n{n}|w4"
        def wj(fault, pos, files, mon, bad=None, badb=None, extra=None):
            j = mkjob(pname, n, fault, pos, files, rf, mon, group, bad, badb, extra); j["argv"] = j["argv"] + ["--max-workers", "4"]; j["id"] += "|w4"; return j
        jobs.append(wj(None, None, base, {"snap": False}))
        for rep in range(2 if quick else 8):
            mon = lambda extra_=None: dict({"snap": False, "delays": {"seed": seed * 100 + rep, "max_ms": 2}, "yield": {"seed": seed * 100 + rep, "p": 0.05}}, **(extra_ or {}))
            for i, kind in ((0, "syntax-error"), (3, "invalid-utf8")):
                bb = bad_bytes(pname, kind, P["good"]); files = dict(base); files[names[i]] = b64(bb)
                jobs.append(wj(kind, i, files, mon(), names[i], files[names[i]], extra=f"#r{rep}"))
            jobs.append(wj("raise_transform", 1, base, mon({"faults": [{"kind": "raise_transform", "file": names[1]}]}), names[1], base[names[1]], extra=f"#r{rep}"))
    pres = run_jobs([mkjob(pn, n, "probe", 0, base, rf, {"snap": False, "faults": [{"kind": "failpoint", "file": names[0], "j": 10**9}]}, group, names[0], base[names[0]]) for pn, n, names, base, rf, group in probes], timeout=300)
    for (pname, n, names, base, rf, group), r in zip(probes, pres):
        entries = 0
        if r.get("status") == "ok":
            entries = max([e["entries"] for e in r["runs"][0]["trace"] if e["k"] == "fp_count"] or [0])
        ENTRIES[group] = entries
        if not entries: continue
        js = list(range(1, entries + 1))
        if quick: js = sorted(set(js[:: max(1, len(js) // 14)] + js[-3:]))
        for i in ([0] if quick else ([0, n - 1] if n > 3 else [0, 1, 2])):
            for j in js:
                jobs.append(mkjob(pname, n, "failpoint", i, base, rf, {"snap": False, "faults": [{"kind": "failpoint", "file": names[i], "j": j}]}, group, names[i], base[names[i]], extra=f"#j{j}"))
    jobs.sort(key=lambda j: 0 if j["fault"] in (None, "only") else 1)     # judged in plan order: baselines first
    return jobs

ENTRIES = {}
_base = {}; _pending = collections.defaultdict(list); _only = collections.defaultdict(dict)
def per_file(run):
    out = {}
    rep = run["report"] or {"results": []}
    for name, blob in run["tree"].items():
        out[name] = {"bytes": blob, "changes": [(r["codemod"], cs["diff"], [(c["lineNumber"], c["description"], len(c.get("findings") or [])) for c in cs["changes"]]) for r in rep["results"] for cs in r["changeset"] if cs["path"] == name],
                     "failed": sorted(r["codemod"] for r in rep["results"] if any(os.path.basename(f) == name for f in (r.get("failedFiles") or []))),
                     "unfixed": sorted((r["codemod"], u.get("id"), u.get("lineNumber")) for r in rep["results"] for u in (r.get("unfixedFindings") or []) if u["path"] == name)}
    return out

def evaluate(job, run, base):
    v = []; cm = job["pipe"]; fk = job["fault"]
    w = {"case": job["id"], "pipeline": cm, "fault": fk, "position": job["pos"], "log_tail": run["log"][-900:]}
    V = lambda key, what, **kw: v.append(Violation("C10", key, what, dict(w, **kw), jobs=[strip_job(job)]))
    if run["rc"] != 0 or run["exc"]:
        V(f"run-aborted/{fk}/{cm}", f"{cm}: the run did not complete (rc={run['rc']} exc={run['exc']}) with fault {fk} on {job['bad']}"); return v, True
    faults_hit = [e for e in run["trace"] if e["k"] == "fault"]
    injected = fk in ("invalid-utf8", "nul-byte", "syntax-error", "latin1-cookie", "empty") or fk.startswith("invalid-utf8-") or bool(faults_hit)
    if fk == "failpoint" and faults_hit and not any(e["k"] == "fault_escaped" for e in run["trace"]): return None, False      # raised inside a function whose caller handles exceptions itself: the file WAS processed
    if not injected: return None, False      # fault never reached (e.g. failpoint j beyond this file's entries): not a decisive case
    pf = per_file(run); bad = job["bad"]
    for name, b in base.items():
        if name == bad: continue
        if pf.get(name) != b:
            diffk = [k for k in ("bytes", "changes", "failed", "unfixed") if (pf.get(name) or {}).get(k) != b.get(k)]
            V(f"other-file-disturbed/{fk}/{cm}", f"{name}: outcome differs from the fault-free run in {diffk} (fault {fk} on {bad})", file=name, got=pf.get(name), want=b)
    if fk == "vanish_before_detector":
        # the file is gone before any codemod selects it: nothing to report about it, the rest must be unaffected
        if bad in run["tree"]: V(f"vanished-file-recreated/{cm}", f"{bad} was deleted before the detector ran but exists after the run")
        return v, True
    if fk == "vanish":
        if bad in run["tree"]: V(f"vanished-file-recreated/{cm}", f"{bad} was deleted before its work item but exists after the run")
    mine = pf.get(bad) or {"changes": [], "failed": [], "unfixed": []}
    if fk == "empty":
        if mine["changes"]: V(f"empty-file-changeset/{cm}", f"a changeset is reported for the empty file {bad}")
        return v, True
    if fk == "nul-byte":
        # libcst (and the text pipelines) accept a NUL byte, so the file is processable: either outcome is within the statement.
        # (that the rewrite turns the NUL into a space is C03's nul-normalised class, not C10's)
        return v, True
    if fk.startswith("invalid-utf8-"): fk = "invalid-utf8"      # same fault kind, other position: same obligations and same key space
    if fk == "latin1-cookie" and not mine["failed"] and not mine["changes"] and cm == "semgrep-detected":
        return v, True   # the detector may legitimately not select an undecodable file
    results = {r["codemod"]: r for r in run["report"]["results"]}
    # codemods in which the fault struck this file: all of them for content faults and for vanish, the recorded ones for injected faults
    hit_cms = sorted({e.get("cm") for e in faults_hit if e.get("cm")}) if fk in ("failpoint", "raise_transform") else sorted(results)
    if fk == "vanish": hit_cms = sorted(results)[sorted(results).index(faults_hit[0]["cm"]):] if faults_hit and faults_hit[0].get("cm") in results else sorted(results)
    order = [r["codemod"] for r in run["report"]["results"]]
    if fk == "vanish" and faults_hit and faults_hit[0].get("cm") in order: hit_cms = order[order.index(faults_hit[0]["cm"]):]
    for k in hit_cms:
        r = results.get(k)
        if r is None: continue
        failed = {os.path.basename(f) for f in (r.get("failedFiles") or [])}
        if bad not in failed and not (fk == "vanish" and k != hit_cms[0]):   # a later codemod simply no longer sees a deleted file
            V(f"not-listed-failed/{fk}/{cm}", f"{bad} could not be processed by {k} ({fk}) but is not in its failedFiles")
        if any(cs["path"] == bad for cs in r["changeset"]): V(f"failed-file-has-changeset/{fk}/{cm}", f"{k} reports a changeset for {bad} although its processing failed")
        if cm == "sast" and bad in failed:
            n_unf = len([u for u in (r.get("unfixedFindings") or []) if u["path"] == bad])
            if n_unf != job["n_findings"]:
                V(f"findings-not-unfixed/{fk}/{cm}", f"{bad} has {job['n_findings']} reported findings but {n_unf} unfixedFindings entries after the fault" + (f" (fault at {faults_hit[0].get('where')}, entry #{faults_hit[0].get('j')})" if faults_hit else ""))
    # a codemod that was NOT hit by the injected fault and runs after the codemod that was: it still sees the original file and must treat it as it does on its own
    if fk in ("failpoint", "raise_transform") and hit_cms and order and order[0] in hit_cms:
        for k in order[1:]:
            if k in hit_cms or k not in _only.get(job["group"], {}): continue
            r = results[k]; alone = _only[job["group"]][k].get(bad, {"changes": [], "failed": []})
            mine_k = [(cs["diff"], [(c["lineNumber"], c["description"]) for c in cs["changes"]]) for cs in r["changeset"] if cs["path"] == bad]
            want_k = [(d_, [(ln, de) for ln, de, nf in ch]) for cmx, d_, ch in alone["changes"]]
            if any(os.path.basename(f) == bad for f in (r.get("failedFiles") or [])):
                V(f"later-codemod-skips-file-failed-earlier/{fk}/{cm}", f"{k} lists {bad} as failed although only {hit_cms} was hit by the fault")
            elif mine_k != want_k:
                V(f"later-codemod-outcome-differs/{fk}/{cm}", f"{k} on {bad}: {len(mine_k)} changeset(s) after {hit_cms} failed on it, {len(want_k)} when it runs alone")
    if set(hit_cms) >= set(results) and fk != "vanish" and pf.get(bad, {}).get("bytes") != "F:" + job["bad_bytes"]:
        V(f"bad-file-modified/{fk}/{cm}", f"{bad} was modified although no codemod could process it")
    return v, True

def judge(job, res):
    v = []; st = collections.Counter(); nt = []
    run = res["runs"][0]
    def handle(j2, r2):
        x, decisive = evaluate(j2, r2, _base[j2["group"]])
        if not decisive: st["fault_not_reached"] += 1; return
        nt.append(j2["id"]); st["fault:" + j2["fault"]] += 1; st["pipeline:" + j2["pipe"]] += 1
        for e in r2["trace"]:
            if e["k"] == "fault" and e.get("where"): st["failpoint_sites"] = st.get("failpoint_sites", 0) + 1
        v.extend(x)
    if job["fault"] == "only":
        if run["rc"] == 0 and not run["exc"]: _only[job["group"]][job["only_cm"]] = per_file(run)
        return v, st, nt
    if job["fault"] is None:
        if run["rc"] != 0 or run["exc"]:
            v.append(Violation("C10", f"baseline-run-failed/{job['pipe']}", f"fault-free run failed rc={run['rc']} exc={run['exc']}", {"log": run["log"][-800:]})); return v, st, nt
        _base[job["group"]] = per_file(run)
        for j2, r2 in _pending.pop(job["group"], []): handle(j2, r2)
        return v, st, nt
    if job["group"] not in _base:
        _pending[job["group"]].append((job, run)); return v, st, nt
    handle(job, run)
    return v, st, nt

def finalize(stats, counters):
    req = {"pipeline " + p: stats.get("pipeline:" + p, 0) for p in PIPES}
    req.update({"fault " + f: stats.get("fault:" + f, 0) for f in ("invalid-utf8", "nul-byte", "syntax-error", "empty", "vanish", "raise_transform", "failpoint")})
    return [], {"function_entries_per_transform_probe": dict(ENTRIES), "baselines": sorted(_base)}, req

def main():
    return run_check("C10", "fault_enumeration", plan, judge, "pipeline kind (detector-less, semgrep-detected, SAST-driven, regex plug-in, XML plug-in) x n files x fault kind (invalid UTF-8, NUL byte, syntax error, latin-1 cookie, empty, file deleted before its work item, transformer raising at entry, failpoint at the j-th repository function entered inside transform for j up to the probed entry count) x position; differential against the fault-free run; non-trivial = the fault was actually injected/hit; distinct by case id",
                     60, deciding_counters=("process_file",), timeout=300, module=__name__, finalize=finalize)

def replay(art):
    out = []
    for j in art.get("jobs") or []:
        basej = dict(j); basej["fault"] = None; basej["monitors"] = {"snap": False}
        P = PIPES[j["pipe"]]; basej["files"] = {nm: b64(P["good"]) for nm in j["files"]}; basej["id"] = "replay-baseline"
        rb, rf = run_jobs([basej, j], timeout=300)
        if rb.get("status") != "ok" or rf.get("status") != "ok": continue
        _base[j["group"]] = per_file(rb["runs"][0])
        x, dec = evaluate(j, rf["runs"][0], _base[j["group"]])
        out += x or []
    return out

if __name__ == "__main__":
    sys.exit(main())
