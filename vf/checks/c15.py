"""C15: report is schema-valid and consistent with the run (one result per executed codemod, paths, diffs, lines, disjointness)."""
import base64, collections, json, os, random, sys
import jsonschema
from vf import corpus
from vf.checks import c03, c10
from vf.checks import grid as grid_mod
from vf.runner import run_check, Violation
b64 = lambda b: base64.b64encode(b).decode(); unb = base64.b64decode
SCHEMA = json.load(open(os.path.join(os.path.dirname(os.path.dirname(os.path.dirname(os.path.abspath(__file__)))), "schema", "codetf.schema.json")))

def plan(tier, seed):
    rnd = random.Random(f"C15:{seed}")
    recs = [r for r in corpus.load() if r["codemod"].startswith("pixee:") and r["input"] != r["expected"] and not r["files"] and not corpus.is_semgrep_detected(r["codemod"])]
    jobs = []
    base = ["{proj}", "--output", "{out}"]
    for q in range(10 if tier == "quick" else 120):
        picks = rnd.sample(recs, rnd.randint(2, 6)); files = {}
        for i, r in enumerate(picks): files[f"d{i % 2}/m{i}.py"] = b64((("# ünïcode ✓\n" if rnd.random() < 0.3 else "") + r["input"]).encode())
        if rnd.random() < 0.5: files["d0/bad.py"] = b64(b"def (:\n")
        if rnd.random() < 0.5: files["requirements.txt"] = b64(b"requests\n")
        cms = sorted({r["codemod"] for r in picks})
        jobs.append({"id": f"mix{q}", "files": files, "argv": base + ["--codemod-include", ",".join(cms)] + (["--dry-run"] if rnd.random() < 0.3 else []), "monitors": {"snap": False, "pipe": False}, "want_before": True})
    # a source file whose write fails (injected at the update_code hook): if the run still completes, its report must be consistent
    for q, cms in enumerate((["pixee:python/use-set-literal"], ["pixee:python/use-set-literal", "pixee:python/remove-unnecessary-f-str"], ["pixee:python/use-generator", "pixee:python/use-set-literal"])):
        files = {"a.py": b64(b"x = set([1])\nprint(f'a')\nt = any([i for i in range(3)])\n"), "b_locked.py": b64(b"y = set([2])\nprint(f'b')\nu = all([i for i in range(3)])\n"), "c.py": b64(b"z = set([3])\n")}
        jobs.append({"id": f"write-fault{q}", "files": files, "argv": base + ["--codemod-include", ",".join(cms)], "monitors": {"snap": False, "pipe": False, "faults": [{"kind": "write_error", "file": "b_locked.py"}]}, "want_before": True})
    # two runs in one process on the same project: the first run meets an unparseable file, the second excludes it - nothing of the first run's bookkeeping belongs in the second report
    for q, cm in enumerate(("pixee:python/use-set-literal", "pixee:python/fix-assert-tuple", "pixee:python/remove-unnecessary-f-str")):
        files = {"good.py": b64(b"x = set([1])\nassert (1, 2)\nprint(f'a')\n"), "bad.py": b64(b"def (:\n"), "sub/bad2.py": b64(b"x = set([1]\n")}
        jobs.append({"id": f"carry-over{q}", "files": files, "argv": [], "steps": [base + ["--codemod-include", cm], base + ["--codemod-include", cm, "--path-exclude", "bad.py,sub/*"]], "excluded": ["bad.py", "sub/bad2.py"],
                     "monitors": {"snap": False, "pipe": False}, "want_before": True})
    # codemods of different origins that share a NAME in one run (ids are unique, names are not): explicit pair, wildcard over the origins, the default tool-driven selection
    tup_src = b"def f(x):\n    assert (x, 'message')\n"
    sonar_doc = json.dumps({"issues": [{"key": "K1", "rule": "python:S5905", "status": "OPEN", "component": "proj:chk.py", "textRange": {"startLine": 2, "endLine": 2, "startOffset": 4, "endOffset": 25}}]})
    for q, sel in enumerate((["--codemod-include", "sonar:python/fix-assert-tuple,pixee:python/fix-assert-tuple"], ["--codemod-include", "pixee:python/fix-assert-tuple,sonar:python/fix-assert-tuple"], ["--codemod-include", "*:python/fix-assert-tuple"], [])):
        jobs.append({"id": f"same-name{q}", "files": {"chk.py": b64(tup_src)}, "result_files": {"sonar.json": sonar_doc}, "argv": base + ["--sonar-issues-json", "{res}/sonar.json"] + sel, "monitors": {"snap": False, "pipe": False}, "want_before": True, "stub_semgrep": True})
    jobs.append({"id": "zero-codemods", "files": {"a.py": b64(b"x = set([1])\n")}, "argv": base + ["--codemod-include", "nope:python/x"], "monitors": {"snap": False}, "want_before": True})
    jobs.append({"id": "zero-files", "files": {}, "argv": base + ["--codemod-include", "pixee:python/use-set-literal"], "monitors": {"snap": False}, "want_before": True})
    jobs.append({"id": "only-nonpython", "files": {"a.txt": b64(b"x")}, "argv": base + ["--codemod-include", "pixee:python/use-set-literal"], "monitors": {"snap": False}, "want_before": True})
    for j in c10.plan("quick", seed)[:40]:
        j = dict(j); j["id"] = "fault:" + j["id"]; j["want_before"] = True; jobs.append(j)
    for j in c03.plan("quick", seed):
        if j["id"].startswith("manifest:"): j = dict(j); j["want_before"] = True; jobs.append(j)
    # a cross-section of the shared grid (every codemod at least once, program families, layouts): each of those reports must be well-formed too
    gj = grid_mod.plan("quick", seed); by_cm = collections.defaultdict(list)
    for j in gj: by_cm[j["cid"]].append(j)
    pick = [rnd.choice(v_) for k_, v_ in sorted(by_cm.items())] + rnd.sample(gj, min(len(gj), 200 if tier == "quick" else 1500))
    for j in pick:
        j = dict(j); j["id"] = "grid:" + j["id"]; j["repeat"] = 1; j["want_before"] = True; j["monitors"] = {"snap": False, "pipe": False}; jobs.append(j)
    sast = [r for r in corpus.load() if r["kind"] == "sast" and r["results"] and r["input"] != r["expected"]]
    from vf.checks import grid
    for j in grid.sast_jobs("quick", seed)[: (20 if tier == "quick" else 100)]:
        j = dict(j); j["repeat"] = 1; j["want_before"] = True; jobs.append(j)
    return jobs

def nlines(blob):
    if not blob or not blob.startswith("F:"): return 0
    return len(unb(blob[2:]).decode("utf-8", "replace").splitlines()) or 1

def judge(job, res):
    v = []; st = collections.Counter(); nt = []
    run = res["runs"][-1] if job.get("steps") else res["runs"][0]
    if run["rc"] != 0 or run["exc"] or run["report"] is None: st["no_report_or_failed"] += 1; return v, st, nt
    rep = run["report"]; w = {"case": job["id"], "argv": job["argv"]}
    errs = sorted(jsonschema.Draft202012Validator(SCHEMA).iter_errors(rep), key=lambda e: list(e.path))
    for e in errs[:3]:
        v.append(Violation("C15", "schema/" + "/".join(str(p) for p in e.absolute_schema_path if not isinstance(p, int))[-60:], e.message[:160], dict(w, path=list(map(str, e.path)))))
    executed = [e["cm"] for e in run["trace"] if e["k"] == "cm_begin"]
    reported = [r["codemod"] for r in rep["results"]]
    if executed and reported != executed: v.append(Violation("C15", "results-not-in-execution-order", f"{reported[:5]} vs {executed[:5]}", w))
    if len(set(reported)) != len(reported): v.append(Violation("C15", "duplicate-result-entries", str(reported), w))
    proj = run["proj"]; interesting = False
    for r in rep["results"]:
        for k in ("references",):
            if k not in r: v.append(Violation("C15", f"missing-{k}", r["codemod"], w))
        changed = set()
        for cs in r["changeset"]:
            interesting = True; p = cs["path"]; changed.add(p)
            if os.path.isabs(p) or p.startswith(".."): v.append(Violation("C15", "changeset-path-not-relative", p, w)); continue
            if p not in run["tree"] and p not in (run["before_tree"] or {}): v.append(Violation("C15", "changeset-path-missing", p, w)); continue
            if not cs["diff"].strip(): v.append(Violation("C15", "empty-diff", p, w))
            if "--dry-run" not in job["argv"] and run["before_tree"] is not None and p in run["tree"] and run["tree"].get(p) == run["before_tree"].get(p) and not p.endswith((".toml", ".cfg", ".txt")) and len(rep["results"]) == 1:
                v.append(Violation("C15", "changeset-for-unchanged-file", f"{p} has a changeset but its bytes did not change in this (non-dry) run", w))
            mx = max(nlines(run["tree"].get(p)), nlines((run["before_tree"] or {}).get(p)))
            if not any(c.get("description") for c in cs["changes"]): v.append(Violation("C15", "no-described-change", p, w))
            for c in cs["changes"]:
                if not (1 <= c["lineNumber"] <= mx + 1): v.append(Violation("C15", f"line-number-outside-file/{r['codemod'].split('/')[1]}", f"{p}: line {c['lineNumber']} of {mx}", w))
        failed = {os.path.relpath(f, proj) if os.path.isabs(f) else f for f in (r.get("failedFiles") or [])}
        if failed: interesting = True
        for f_ in sorted(failed & set(job.get("excluded") or [])):
            v.append(Violation("C15", "failed-file-not-selected-by-this-run", f"{f_} is excluded from this run and listed as failed", w))
        for f_ in sorted(failed):
            # a failed file is a file of THIS project (another run's failures, another directory's paths have no business here)
            if f_.startswith("..") or os.path.isabs(f_) or (f_ not in run["tree"] and f_ not in (run["before_tree"] or {})): v.append(Violation("C15", "failed-file-not-of-this-project", f_, w))
        if failed & changed: v.append(Violation("C15", "failed-and-changed-overlap", str(sorted(failed & changed)), w))
        if r["codemod"].split(":")[0] in ("sonar", "semgrep", "codeql", "defectdojo") and r["changeset"]:      # SAST origins only (plug-in find-and-fix codemods have their own origin)
            if not r.get("detectionTool"): v.append(Violation("C15", "sast-result-without-detection-tool", r["codemod"], w))
            fs = [f for cs in r["changeset"] for c in cs["changes"] for f in (c.get("findings") or [])]
            if any(not f.get("id") or not f.get("rule", {}).get("id") for f in fs): v.append(Violation("C15", "finding-without-identifiers", r["codemod"], w))
    if interesting: nt.append(job["id"])
    return v, st, nt

def main():
    return run_check("C15", "exploration", plan, judge, "mixed runs (multi-codemod, failures, dependency changes, non-ASCII, SAST tools, zero codemods/files, dry-run); vendored conservative schema + structural invariants vs tree; non-trivial = report has a changeset or a failure", 20, deciding_counters=(), timeout=300, module=__name__)

if __name__ == "__main__":
    sys.exit(main())
