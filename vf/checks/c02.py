"""C02 on the shared grid (+ a second wave: multi-site files re-run with one rewritten line excluded, so partially applied rewrites are judged too)."""
import base64, os, sys, warnings
warnings.simplefilter("ignore")
from vf import oracles as O
from vf.checks import grid
from vf.runner import run_check, Violation, line_filter_followups, tier_seed
unb = base64.b64decode

def judge(job, res):
    import collections
    v = []; st = collections.Counter(); nt = []
    r1 = res["runs"][0]
    if r1["rc"] != 0 or r1["exc"]:
        st["run_failed"] += 1; return v, st, nt
    for e in r1["trace"]:
        if e["k"] == "dep_write" and not str(e["path"]).endswith(".py"): continue
        if e["k"] not in ("pipe", "dep_write") or e["before"] is None or e["after"] is None or e["before"] == e["after"]: continue
        name = os.path.basename(e["path"]); lab = tuple(job["labels"].get(name, ()))
        try: bt, at = O.decode(unb(e["before"])), O.decode(unb(e["after"]))
        except UnicodeDecodeError: st["undecodable"] += 1; continue
        ub, ua = O.unresolved(bt), O.unresolved(at)
        if ub is None or ua is None: st["scope_unknown"] += 1; continue
        nt.append((job["cid"], name, job["id"]))
        st["fired:" + job["cid"]] += 1
        if not ua <= ub:
            new = sorted(ua - ub)
            v.append(Violation("C02", f"{job['cid'].split('/')[1]}/new-unbound" + ("/one-site-line-excluded" if "excluded_line" in job else ""), f"rewrite introduces unresolved names {new}", {"codemod": job["cid"], "labels": lab, "before": bt, "after": at, "new_unresolved": new}))
    return v, st, nt

def main():
    return run_check("C02", "exploration", grid.plan, judge, "grid of codemod x seed x context x import style x layout; non-trivial = file rewritten and both scope sets known", 50, deciding_counters=("pipe_libcst",), module=__name__, followup=line_filter_followups, followup_cap=(400 if tier_seed()[0] == "quick" else 3000))

if __name__ == "__main__":
    sys.exit(main())
