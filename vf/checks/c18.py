"""PROTOTYPE C18: rule-detected codemods act on what their own detector reports; re-detection on rewritten code is clean."""
import ast, base64, collections, hashlib, json, os, random, re, sys
from vf import corpus, gen
from vf.checks import grid
from vf.runner import run_check, Violation
b64 = lambda b: base64.b64encode(b).decode(); unb = base64.b64decode

def declined(cm, src):
    """structural classifier for the shapes the statement lets a codemod decline"""
    try: t = ast.parse(src)
    except SyntaxError: return "unparseable"
    imported = set(); rebound = set()
    for n in ast.walk(t):
        if isinstance(n, ast.Import):
            for a in n.names:
                nm = a.asname or a.name.split(".")[0]
                if nm in imported: rebound.add(nm)
                if a.asname and a.name.split(".")[0] != a.asname and a.asname in {"yaml", "requests", "random", "logging"}: rebound.add(a.asname)  # foreign module aliased to a watched name
                imported.add(nm)
        elif isinstance(n, ast.ImportFrom):
            for a in n.names: imported.add(a.asname or a.name)
    for n in ast.walk(t):
        if isinstance(n, (ast.Name,)) and isinstance(n.ctx, ast.Store) and n.id in imported: rebound.add(n.id)
        if isinstance(n, (ast.FunctionDef, ast.ClassDef, ast.AsyncFunctionDef)) and n.name in imported: rebound.add(n.name)
        if isinstance(n, ast.arg) and n.arg in imported: rebound.add(n.arg)
    if rebound: return "rebound-or-shadowed"
    if cm == "bad-lock-with-statement":
        for n in ast.walk(t):
            if isinstance(n, (ast.With, ast.AsyncWith)) and len(n.items) > 1: return "several-with-items"
    if cm == "lazy-logging":
        for n in ast.walk(t):
            if isinstance(n, ast.Call) and n.args:
                for a in n.args[:2]:
                    ops = {type(b.op).__name__ for b in ast.walk(a) if isinstance(b, ast.BinOp)}
                    if {"Add", "Mod"} <= ops: return "mixed-percent-plus"
                    if "Add" in ops:
                        leaves = []
                        def fl(x):
                            if isinstance(x, ast.BinOp) and isinstance(x.op, ast.Add): fl(x.left); fl(x.right)
                            else: leaves.append(x)
                        fl(a)
                        seg = [ast.get_source_segment(src, l) or "" for l in leaves if isinstance(l, ast.Constant)]
                        prefs = {re.match(r"^[A-Za-z]*", s_).group(0).lower() for s_ in seg}
                        if len(prefs) > 1: return "mixed-string-prefixes"
                        if any(not isinstance(l, (ast.Constant, ast.Name)) for l in leaves): return "operand-type-not-inferable"
                        if any(isinstance(l, ast.Constant) and isinstance(l.value, str) and "%" in l.value for l in leaves): return "percent-in-literal"
    return None

def plan(tier, seed):
    jobs = [j for j in grid.plan(tier, seed) if corpus.is_semgrep_detected(j["cid"])]
    # add non-ASCII-before-site layout for every file (same line): prefix statement on the same line is not generally possible; add a unicode string statement joined with ';' before simple one-line sites
    for j in jobs:
        j["argv"] = j["argv"] + ["--verbose"]; j["full_log"] = True
        extra = {}
        for name, blob in list(j["files"].items()):
            src = unb(blob).decode("utf-8", "replace")
            lines = src.splitlines(keepends=True)
            for k in range(len(lines) - 1, -1, -1):
                l = lines[k]
                if l.strip() and not l.startswith((" ", "\t", "#", "import ", "from ", "@", "def ", "class ", "with ", "if ", "for ", "try", "else", "elif")) and "(" in l and not l.rstrip().endswith((",", "(", "\\", ":")) and k == len(lines) - 1:
                    lines[k] = "vf_u = 'é✓'; " + l
                    new = "".join(lines)
                    try: compile(new, "<s>", "exec")
                    except SyntaxError: break
                    h = hashlib.sha1(new.encode()).hexdigest()[:12]
                    extra[f"u_{h}.py"] = b64(new.encode()); j["labels"][f"u_{h}.py"] = tuple(j["labels"][name]) + ("nonascii-same-line",)
                    break
        if tier == "quick": extra = dict(list(extra.items())[:6])
        j["files"].update(extra)
    return jobs

def flagged(log):
    out = {}
    for l in log.splitlines():
        m = re.match(r"(\d+) findings for .*/proj/(.+)$", l)
        if m: out[m.group(2)] = int(m.group(1))
    return out

def judge(job, res):
    v = []; st = collections.Counter(); nt = []
    r1, r2 = res["runs"]; cm = job["cid"].split("/")[1]
    if r1["rc"] != 0 or r1["exc"]: st["run_failed"] += 1; return v, st, nt
    f1 = flagged(r1["log"]); failed = {os.path.basename(f) for r in r1["report"]["results"] for f in (r.get("failedFiles") or [])}
    for name, blob in job["files"].items():
        if f1.get(name, 0) == 0: continue
        nt.append((job["id"], name)); st["flagged:" + job["cid"]] += 1
        src = unb(blob).decode("utf-8-sig", "replace")
        changed = r1["tree"].get(name) != "F:" + blob
        lab = tuple(job["labels"].get(name, ()))
        if not changed and name not in failed:
            d = declined(cm, src)
            if d: st["declined:" + d] += 1
            else:
                key = f"{cm}/nonascii-column-mismatch" if "nonascii-same-line" in lab else f"{cm}/flagged-not-rewritten"
                v.append(Violation("C18", key, f"{f1[name]} finding(s) reported by the codemod's own rule but file neither rewritten nor failed", {"codemod": job["cid"], "labels": lab, "src": src}))
    if r2["rc"] == 0:
        f2 = flagged(r2["log"])
        for name, n in f2.items():
            if n and r1["tree"].get(name) != "F:" + job["files"].get(name, ""):
                src = unb(r1["tree"][name][2:]).decode("utf-8-sig", "replace")
                d = declined(cm, unb(job["files"][name]).decode("utf-8-sig", "replace"))
                # only locations inside rewritten statements count; approximation: all sites of the file were rewritten if flagged count after >= before
                if d: st["declined2:" + d] += 1
                elif n >= f1.get(name, 0): v.append(Violation("C18", f"{cm}/reflagged-after-fix", f"detector still reports {n} location(s) in rewritten file", {"codemod": job["cid"], "after": src}))
    return v, st, nt

def main():
    return run_check("C18", "exploration", plan, judge, "22 semgrep-detected codemods x spelling/context/layout variants (+ non-ASCII before the site on the same line); flagged by own rule => rewritten or failed unless structurally declined; second detector pass; non-trivial = detector flagged the file", 100, deciding_counters=("semgrep_own", "pipe_libcst"), timeout=900, module=__name__)

if __name__ == "__main__":
    sys.exit(main())
