"""C18: rule-detected codemods act on what their own detector reports; re-detection on rewritten code is clean."""
import ast, base64, collections, hashlib, json, os, random, re, sys
from vf import corpus, gen
from vf.checks import grid
from vf.runner import run_check, Violation
b64 = lambda b: base64.b64encode(b).decode(); unb = base64.b64decode

def declined(cm, src):
    """structural classifier for the shapes the statement lets a codemod decline"""
    try: t = ast.parse(src)
    except SyntaxError: return "unparseable"
    imported = set(); rebound = set()
    for n in ast.walk(t):
        if isinstance(n, ast.Import):
            for a in n.names:
                nm = a.asname or a.name.split(".")[0]
                if nm in imported: rebound.add(nm)
                if a.asname and a.name.split(".")[0] != a.asname and a.asname in {"yaml", "requests", "random", "logging"}: rebound.add(a.asname)  # foreign module aliased to a watched name
                imported.add(nm)
        elif isinstance(n, ast.ImportFrom):
            for a in n.names:
                nm = a.asname or a.name
                if nm in imported: rebound.add(nm)      # the same name imported twice (two seeds of a pair bring the same from-import): which binding a call uses is ambiguous
                imported.add(nm)
    for n in ast.walk(t):
        if isinstance(n, (ast.Name,)) and isinstance(n.ctx, ast.Store) and n.id in imported: rebound.add(n.id)
        if isinstance(n, (ast.FunctionDef, ast.ClassDef, ast.AsyncFunctionDef)) and n.name in imported: rebound.add(n.name)
        if isinstance(n, ast.arg) and n.arg in imported: rebound.add(n.arg)
    if rebound: return "rebound-or-shadowed"
    if cm == "bad-lock-with-statement":
        for n in ast.walk(t):
            if isinstance(n, (ast.With, ast.AsyncWith)) and len(n.items) > 1: return "several-with-items"
    if cm == "lazy-logging":
        for n in ast.walk(t):
            if isinstance(n, ast.Call) and n.args:
                for a in n.args[:2]:
                    ops = {type(b.op).__name__ for b in ast.walk(a) if isinstance(b, ast.BinOp)}
                    if {"Add", "Mod"} <= ops: return "mixed-percent-plus"
                    if "Add" in ops:
                        leaves = []
                        def fl(x):
                            if isinstance(x, ast.BinOp) and isinstance(x.op, ast.Add): fl(x.left); fl(x.right)
                            else: leaves.append(x)
                        fl(a)
                        seg = [ast.get_source_segment(src, l) or "" for l in leaves if isinstance(l, ast.Constant)]
                        prefs = {re.match(r"^[A-Za-z]*", s_).group(0).lower() for s_ in seg}
                        if len(prefs) > 1: return "mixed-string-prefixes"
                        if any(not isinstance(l, (ast.Constant, ast.Name)) for l in leaves): return "operand-type-not-inferable"
                        # a name operand that is bound more than once in the file (re-assigned, a loop variable, rebound under `global`): its type is not what one assignment says
                        stores = collections.Counter(x.id for x in ast.walk(t) if isinstance(x, ast.Name) and isinstance(x.ctx, ast.Store))
                        globals_ = {g for x in ast.walk(t) if isinstance(x, (ast.Global, ast.Nonlocal)) for g in x.names}
                        if any(isinstance(l, ast.Name) and (stores[l.id] != 1 or l.id in globals_) for l in leaves): return "operand-type-not-inferable"
                        if any(isinstance(l, ast.Constant) and isinstance(l.value, str) and "%" in l.value for l in leaves): return "percent-in-literal"
    return None

def plan(tier, seed):
    jobs = [j for j in grid.plan(tier, seed) if corpus.is_semgrep_detected(j["cid"])]
    # non-ASCII text on the lines of the flagged construct (Semgrep counts columns in bytes, libcst in characters):
    #   prefix        a unicode string statement joined with ';' in front of the statement, single-line call
    #   hanging       the call broken after its first argument (ASCII; the base of the next two)
    #   hanging+prefix / hanging+last-arg   non-ASCII on the FIRST line / before the closing parenthesis on the LAST line of a multi-line call
    #   last-arg      non-ASCII keyword argument appended to a single-line call
    for j in jobs:
        j["monitors"] = {"snap": False, "sg_locs": True}; j["base_of"] = {}
        extra = {}; n_src = 0
        for name, blob in list(j["files"].items()):
            lab = tuple(j["labels"].get(name, ()))
            if len(lab) == 3 and lab[2] not in ("lf", "exploded", "trailing-comma"): continue
            try: src = unb(blob).decode("utf-8")
            except UnicodeDecodeError: continue
            if not src.isascii(): continue
            n_src += 1
            if tier == "quick" and n_src > 8: break
            def add(kind, text, base):
                if text is None or text == src: return None
                h = hashlib.sha1(text.encode()).hexdigest()[:12]; nm = f"{kind[0]}_{h}.py"
                extra[nm] = b64(text.encode()); j["labels"][nm] = lab + (kind,)
                if base: j["base_of"][nm] = base
                return nm
            add("u:nonascii-prefix", gen.nonascii_prefix(src), name)
            add("u:nonascii-last-arg", gen.nonascii_last_argument(src), name)
            hang = gen.hanging_calls(src)
            hname = add("h:hanging", hang, None)
            if hname:
                add("u:hanging+nonascii-prefix", gen.nonascii_prefix(hang), hname)
                add("u:hanging+nonascii-last-arg", gen.nonascii_last_argument(hang), hname)
        j["files"].update(extra)
    # a large project: > 200 candidate files (mostly filler), the same flagged file at the start, in the middle and at the end of the sorted file list.
    # Identical files are one and the same input to the detector: whatever it reports for one copy it reports for the others, and the transformer treats them alike
    # (whatever the detector does to split the work - batching, pre-filtering, caching - is invisible)
    seen_cm = set(); big = []
    for j in jobs:
        if j["cid"] in seen_cm or (tier == "quick" and len(big) >= 3): continue
        pick = None
        for name, blob in sorted(j["files"].items()):
            lab = tuple(j["labels"].get(name, ()))
            if len(lab) == 3 and lab[2] == "lf" and unb(blob).isascii(): pick = (name, blob); break
        if pick is None: continue
        seen_cm.add(j["cid"]); N = 263; at = (2, 131, 260)
        files = {f"pkg/mod_{i:03d}.py": (pick[1] if i in at else b64(f"value_{i} = {i}\n".encode())) for i in range(N)}
        grp = [f"pkg/mod_{i:03d}.py" for i in at]
        big.append({"id": j["cid"] + "#many-files", "cid": j["cid"], "files": files, "labels": {n: tuple(j["labels"].get(pick[0], ())) + ("many-files",) for n in grp}, "argv": j["argv"], "repeat": j.get("repeat", 2),
                    "monitors": {"snap": False, "sg_locs": True}, "base_of": {}, "identical": [grp]})
    return jobs + big

def own_calls(run, proj):
    """per file: number of locations the codemod's own semgrep invocation(s) reported, and the locations"""
    counts = collections.Counter(); locs = collections.defaultdict(list)
    for e in run["trace"]:
        if e["k"] != "sg_call" or e["kind"] != "own": continue
        for rule, d in (e.get("locs") or {}).items():
            for p, ls in d.items():
                rel = os.path.relpath(p, proj) if os.path.isabs(p) else p
                counts[rel] += len(ls); locs[rel] += ls
    return counts, locs

def rewritten_statements(before, after):
    """line ranges (in `after` numbering) of the smallest statements containing a line the run changed or inserted"""
    import difflib
    A = before.splitlines(); B = after.splitlines(); ch = set()
    for tag, i1, i2, j1, j2 in difflib.SequenceMatcher(None, A, B, autojunk=False).get_opcodes():
        if tag in ("replace", "insert"):
            for jn in range(j1, j2): ch.add(jn + 1)
    try: t = ast.parse(after)
    except SyntaxError: return [(c, c) for c in sorted(ch)]
    out = set()
    for c in ch:
        best = None
        for n in ast.walk(t):
            if isinstance(n, ast.stmt) and n.lineno <= c <= (n.end_lineno or n.lineno):
                # header of a compound statement only (its body is other statements)
                end = n.end_lineno or n.lineno
                if hasattr(n, "body") and isinstance(getattr(n, "body"), list) and n.body and isinstance(n.body[0], ast.stmt): end = max(n.lineno, n.body[0].lineno - 1)
                if n.lineno <= c <= end and (best is None or (end - n.lineno) <= (best[1] - best[0])): best = (n.lineno, end)
        out.add(best or (c, c))
    return sorted(out)

def judge(job, res):
    v = []; st = collections.Counter(); nt = []
    r1, r2 = res["runs"]; cm = job["cid"].split("/")[1]
    if r1["rc"] != 0 or r1["exc"]: st["run_failed"] += 1; return v, st, nt
    f1, _ = own_calls(r1, r1["proj"]); failed = {os.path.relpath(f, r1["proj"]) if os.path.isabs(f) else f for r in r1["report"]["results"] for f in (r.get("failedFiles") or [])}
    pipes = {os.path.relpath(e["path"], r1["proj"]): e for e in r1["trace"] if e["k"] == "pipe"}
    rewritten = {n for n, e in pipes.items() if e["before"] is not None and e["after"] is not None and e["before"] != e["after"]}
    for grp in job.get("identical") or []:
        st["identical_file_groups"] += 1
        if any(f1.get(n, 0) for n in grp): st["identical_file_groups_flagged"] += 1
        if len({f1.get(n, 0) for n in grp}) > 1:
            v.append(Violation("C18", f"{cm}/identical-files-flagged-differently/many-files", f"{cm}: byte-identical files of one project were reported differently by the codemod's own detector: { {n: f1.get(n, 0) for n in grp} } ({len(job['files'])} files in the project)", {"codemod": job["cid"], "files": len(job["files"]), "copies": grp, "src": unb(job["files"][grp[0]]).decode("utf-8", "replace")}))
        elif len({n in rewritten for n in grp}) > 1:
            v.append(Violation("C18", f"{cm}/identical-files-rewritten-differently/many-files", f"{cm}: of the byte-identical files {grp} only {sorted(n for n in grp if n in rewritten)} were rewritten", {"codemod": job["cid"], "files": len(job["files"]), "copies": grp}))
    for name, blob in job["files"].items():
        if f1.get(name, 0) == 0: continue
        nt.append((job["id"], name)); st["flagged:" + job["cid"]] += 1; st["fired:" + job["cid"]] += 1
        try: src = unb(blob).decode("utf-8-sig")
        except UnicodeDecodeError: continue
        lab = tuple(job["labels"].get(name, ()))
        if name in rewritten: st["flagged_and_rewritten"] += 1; continue
        if name in failed: st["flagged_and_failed"] += 1; continue
        d = declined(cm, src)
        if d: st["declined:" + d] += 1; continue
        base = job.get("base_of", {}).get(name)
        if any("nonascii" in str(x) for x in lab) and base in rewritten: key = "nonascii-column-mismatch"   # the same program in the same layout without the non-ASCII text was rewritten in this very run
        else: key = f"{cm}/flagged-not-rewritten"
        v.append(Violation("C18", key, f"{cm}: {f1[name]} location(s) reported by the codemod's own rule in {name} but the file was neither rewritten nor listed as failed", {"codemod": job["cid"], "labels": lab, "src": src, "file": name}))
    if r2["rc"] == 0 and not r2["exc"]:
        f2, l2 = own_calls(r2, r2["proj"])
        for name in sorted(rewritten):
            if not f2.get(name): st["clean_after_fix"] += 1; continue
            e = pipes[name]
            try: before, after = unb(e["before"]).decode("utf-8-sig"), unb(e["after"]).decode("utf-8-sig")
            except UnicodeDecodeError: continue
            stmts = rewritten_statements(before, after)
            hits = [l for l in l2[name] if not (l[0] == l[2] and l[1] == l[3]) and any(a <= l[0] <= b or a <= l[2] <= b or (l[0] <= a and b <= l[2]) for a, b in stmts)]
            if not hits: st["reflagged_outside_rewritten_code"] += 1; continue
            orig = unb(job["files"][name]).decode("utf-8-sig", "replace")
            d = declined(cm, orig)
            if d: st["declined2:" + d] += 1; continue
            lab = tuple(job["labels"].get(name, ()))
            v.append(Violation("C18", f"{cm}/reflagged-after-fix/" + (lab[1] if lab[:1] == ("family",) else (str(lab[-1]).split(":")[-1] if len(lab) > 3 else "layout-" + str(lab[2] if len(lab) > 2 else "?"))), f"{cm}: the detector still reports {hits[:3]} inside statement(s) {stmts[:3]} that the run rewrote in {name}", {"codemod": job["cid"], "before": before, "after": after, "locations": hits, "rewritten_statements": stmts}))
    return v, st, nt

def main():
    return run_check("C18", "exploration", plan, judge, "the 22 semgrep-detected codemods x seed x context x import-style x layout variants (+ non-ASCII text before the site on the same line), 50 files per project; H-sg records what the codemod's own semgrep invocation reported per file; flagged => rewritten or failed unless structurally declined; second run: no reported location inside a statement the first run rewrote; non-trivial = the detector flagged the file",
                     100, deciding_counters=("semgrep_own", "pipe_libcst"), timeout=900, module=__name__)

if __name__ == "__main__":
    sys.exit(main())
