"""C04: --dry-run touches nothing under the target and predicts the real run (single codemod).

Monitors: H-fs (sys.addaudithook: every open-for-write / remove / rename / mkdir / chmod / utime ... with its path, while run() executes),
tree snapshots with content AND (mode, mtime_ns, size) before/after, H-rep; a sample of dry runs is repeated as the unmodified console
script under strace (H-sys), which also sees semgrep's child processes. Oracle: no mutation event under the target, snapshots equal,
normalised dry report == normalised real report of the same project."""
import base64, collections, copy, hashlib, json, os, random, sys
from vf import corpus, gen, blackbox as BB
from vf.checks import c03
from vf.runner import run_check, Violation
b64 = lambda b: base64.b64encode(b).decode()

def plan(tier, seed):
    rnd = random.Random(f"C04:{seed}")
    recs = [r for r in corpus.load() if r["codemod"].startswith("pixee:") and r["input"] != r["expected"] and not r["files"]]
    by = collections.defaultdict(list)
    for r in recs: by[r["codemod"]].append(r)
    mk = sorted(c03.MANIFESTS)
    jobs = []; i = 0
    per = 2 if tier == "quick" else 8
    for cid, rs in sorted(by.items()):
        for r in rnd.sample(rs, min(per, len(rs))):
            lay = ("lf", "bom", "crlf", "nonl", "lf", "bom")[i % 6]      # a dry run must predict the real run for every source layout (BOM files: line 1 of the diff)
            files = {"code.py": b64(gen.layout(r["input"], lay))}
            m = mk[i % len(mk)]; i += 1
            files.update({k: b64(v) for k, v in c03.MANIFESTS[m].items()})
            if i % 3 == 0:
                # a link inside the project that aliases another analysed file (and one to a directory): whatever the listing does with links, dry and real run must agree
                files["alias_link.py"] = {"symlink": "code.py"}; files["pkg_link"] = {"symlink": "."}
            extra = rnd.choice(([], ["--verbose"], ["--max-workers", "4"], ["--path-include", "*.py"]))
            for dry in (True, False):
                jobs.append({"id": f"{cid}|{hashlib.sha1(r['input'].encode()).hexdigest()[:8]}|{m}|{'dry' if dry else 'real'}", "pair": f"{cid}|{i}", "cid": cid, "dry": dry, "files": files,
                             "argv": ["{proj}", "--output", "{out}", "--codemod-include", cid] + extra + (["--dry-run"] if dry else []), "monitors": {"snap": False, "fs": True}, "want_before": True, "want_stat": True})
    for mkey in mk:
        for cid, src in c03.DEP_CODEMODS.items():
            files = {"app.py": b64(src.encode())}; files.update({k: b64(v) for k, v in c03.MANIFESTS[mkey].items()})
            for dry in (True, False):
                jobs.append({"id": f"dep|{cid}|{mkey}|{'dry' if dry else 'real'}", "pair": f"dep|{cid}|{mkey}", "cid": cid, "dry": dry, "files": files,
                             "argv": ["{proj}", "--output", "{out}", "--codemod-include", cid] + (["--dry-run"] if dry else []), "monitors": {"snap": False, "fs": True}, "want_before": True, "want_stat": True})
    # the manifest is itself a source file the same codemod rewrites (setup.py holding the trigger): the dependency entry is computed on the transformed text in a real run
    SETUP_SRC = {"pixee:python/sandbox-process-creation": b'import subprocess\nfrom flask import request\nfrom setuptools import setup\n\ndef v():\n    subprocess.run(request.args["c"])\n\nsetup(\n    name="x",\n    install_requires=[\n        "requests",\n    ],\n)\n',
                 "pixee:python/use-defusedxml": b'import xml.sax\nfrom setuptools import setup\n\nxml.sax.parse("f")\n\nsetup(\n    name="x",\n    install_requires=[\n        "requests",\n    ],\n)\n'}
    for cid, src in SETUP_SRC.items():
        for dry in (True, False):
            jobs.append({"id": f"manifest-is-source|{cid}|{'dry' if dry else 'real'}", "pair": f"mis|{cid}", "cid": cid, "dry": dry, "files": {"setup.py": b64(src)}, "manifest_is_source": True,
                         "argv": ["{proj}", "--output", "{out}", "--codemod-include", cid] + (["--dry-run"] if dry else []), "monitors": {"snap": False, "fs": True}, "want_before": True, "want_stat": True})
    # SAST-driven codemods with their tool result files
    from vf.checks import grid
    for k, j in enumerate(grid.sast_jobs("quick", seed)):
        if tier == "quick" and k % 3 != seed % 3: continue
        for dry in (True, False):
            jobs.append({"id": j["id"] + ("|dry" if dry else "|real"), "pair": "sast|" + j["id"], "cid": j["cid"], "dry": dry, "files": j["files"], "result_files": j["result_files"],
                         "argv": j["argv"] + (["--dry-run"] if dry else []), "monitors": {"snap": False, "fs": True}, "want_before": True, "want_stat": True})
    return jobs

STRACE = []
def strace_runs(tier, seed):
    """H-sys: the unmodified console script under strace -f; semgrep children and anything below Python are seen"""
    rnd = random.Random(f"C04-strace:{seed}")
    cases = [("pixee:python/use-defusedxml", "import xml.sax\nxml.sax.parse('f')\n", "req_lf"), ("pixee:python/requests-verify", "import requests\nrequests.get('u', verify=False)\n", "setup_py"),
             ("pixee:python/harden-pickle-load", "import pickle\npickle.load(open('f','rb'))\n", "pyproject"), ("pixee:python/secure-random", "import random\nrandom.random()\n", "setup_cfg"),
             ("pixee:python/url-sandbox", "import requests\nfrom flask import request\ndef v():\n    requests.get(request.args['u'])\n", "req_nonl"), ("pixee:python/use-set-literal", "x = set([1])\n", "poetry")]
    if tier == "quick": cases = rnd.sample(cases, 3)
    else: cases = cases * 4
    def one(c):
        cid, src, mk = c
        files = {"code.py": src.encode(), "pkg/mod.py": src.encode()}; files.update(c03.MANIFESTS[mk])
        r = BB.run_cli(["{proj}", "--dry-run", "--output", "{dir}/out.json", "--codemod-include", cid], files=files, strace=True, timeout=600)
        ev, n = BB.strace_mutations(os.path.join(r["dir"], "strace.out"), os.path.join(r["dir"], "proj"), r["dir"])
        rep = None
        try: rep = json.load(open(os.path.join(r["dir"], "out.json")))
        except Exception: pass
        import shutil; shutil.rmtree(r["dir"], ignore_errors=True)
        return {"cid": cid, "manifest": mk, "rc": r.get("rc"), "events": ev, "n_syscalls": n, "changesets": sum(len(x["changeset"]) for x in (rep or {}).get("results", []))}
    return BB.pmap(one, cases, workers=6)

_pairs = {}
def norm(rep, proj):
    r = copy.deepcopy(rep); r["run"]["elapsed"] = 0; r["run"]["directory"] = "D"; r["run"]["commandLine"] = "C"
    s = json.dumps(r, sort_keys=True).replace(proj, "P")
    return s

def judge(job, res):
    v = []; st = collections.Counter(); nt = []
    run = res["runs"][0]
    if run["rc"] != 0 or run["exc"]:
        st["run_failed"] += 1; return v, st, nt
    cm = job["cid"].split("/")[1]
    if job["dry"]:
        if run["tree"] != run["before_tree"]:
            diff = sorted(k for k in set(run["tree"]) | set(run["before_tree"]) if run["tree"].get(k) != run["before_tree"].get(k))
            v.append(Violation("C04", f"dry-run-wrote/{os.path.splitext(diff[0])[1] or diff[0]}", f"--dry-run changed {diff}", {"codemod": job["cid"], "argv": job["argv"], "changed": diff}))
        elif run.get("stat") is not None and run.get("before_stat") is not None and run["stat"] != run["before_stat"]:
            diff = sorted(k for k in set(run["stat"]) | set(run["before_stat"]) if run["stat"].get(k) != run["before_stat"].get(k))
            v.append(Violation("C04", "dry-run-touched-metadata", f"--dry-run changed mode/mtime/size of {diff}", {"codemod": job["cid"], "argv": job["argv"], "changed": diff}))
        for e in run["trace"]:
            if e["k"] == "dep_write" and not e["dry"]:
                v.append(Violation("C04", f"dry-run-dependency-writer-not-dry/{e['store']}", f"DependencyManager.write(dry_run=False) on {os.path.basename(e['path'])} during --dry-run", {"codemod": job["cid"], "argv": job["argv"], "store": e["store"]}))
            if e["k"] == "fs":
                p = e["path"] if isinstance(e["path"], str) else e["path"][0]
                if p.startswith(run["proj"] + "/") or p == run["proj"]:
                    v.append(Violation("C04", "dry-run-fs-event", f"{e['op']} on {p} during --dry-run", {"codemod": job["cid"], "argv": job["argv"]}))
    key = job["pair"]
    _pairs.setdefault(key, {})["dry" if job["dry"] else "real"] = (norm(run["report"], run["proj"]), run["tree"] != run["before_tree"])
    if len(_pairs[key]) == 2:
        (rd, _), (rr, real_changed) = _pairs[key]["dry"], _pairs[key]["real"]
        if real_changed: nt.append(key); st["fired:" + job["cid"]] += 1
        if rd != rr and job.get("manifest_is_source"):
            # mechanism: the two reports agree once hunk positions and change line numbers of the changesets are ignored -> only WHERE the dependency entry is reported differs
            # (the dry run computes it on the original text, the real run on the text the codemod has already rewritten)
            import re as _re
            def loose(x):
                d_ = json.loads(x)
                for r_ in d_["results"]:
                    for cs_ in r_["changeset"]:
                        cs_["diff"] = _re.sub(r"@@ -\d+(,\d+)? \+\d+(,\d+)? @@", "@@", cs_["diff"])
                        for c_ in cs_["changes"]: c_["lineNumber"] = 0
                return json.dumps(d_, sort_keys=True)
            if loose(rd) == loose(rr):
                v.append(Violation("C04", "dry-report-differs/manifest-is-source/dependency-entry-position", "dry-run report places the dependency entry of setup.py at other line numbers than the real run", {"codemod": job["cid"], "dry": rd[:1500], "real": rr[:1500]}))
                return v, st, nt
        if rd != rr:
            v.append(Violation("C04", f"dry-report-differs/{cm}" + ("/manifest-is-source" if job.get("manifest_is_source") else ""), "dry-run report differs from the real run's", {"codemod": job["cid"], "dry": rd[:1500], "real": rr[:1500]}))
    return v, st, nt

def finalize(stats, counters):
    tier, seed = __import__("vf.runner", fromlist=["tier_seed"]).tier_seed()
    out = []; res = strace_runs(tier, seed); seen = 0; syscalls = 0; with_changes = 0
    for r in res:
        if r["events"] is None or r["rc"] != 0: continue
        seen += 1; syscalls += r["n_syscalls"]; with_changes += 1 if r["changesets"] else 0
        for e in r["events"][:3]:
            out.append(Violation("C04", f"dry-run-syscall/{e['syscall']}", f"{e['syscall']} on {e['path']} during --dry-run of {r['cid']} (strace)", {"codemod": r["cid"], "manifest": r["manifest"], "event": e}))
    extra = {"strace_runs": seen, "strace_mutation_syscalls_examined": syscalls, "strace_runs_whose_dry_report_had_changesets": with_changes}
    return out, extra, {"strace dry runs observed": seen, "mutation-class syscalls seen by strace (anywhere)": syscalls}

def main():
    return run_check("C04", "exploration", plan, judge, "dry/real pairs over every pixee codemod x manifest kinds (incl. CRLF / non-UTF-8 / BOM) x options, dependency-adding codemods x every manifest, SAST codemods with result files; audit-hook fs monitor + content and (mode, mtime, size) snapshots; plus dry runs of the console script under strace -f; non-trivial = the paired real run changed the tree; distinct by pair",
                     40, deciding_counters=("_apply",), timeout=300, module=__name__, finalize=finalize)

if __name__ == "__main__":
    sys.exit(main())
