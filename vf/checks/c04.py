"""PROTOTYPE C04: --dry-run touches nothing under the target and predicts the real run (single codemod)."""
import base64, collections, copy, hashlib, json, os, random, sys
from vf import corpus
from vf.checks import c03
from vf.runner import run_check, Violation
b64 = lambda b: base64.b64encode(b).decode()

def plan(tier, seed):
    rnd = random.Random(f"C04:{seed}")
    recs = [r for r in corpus.load() if r["codemod"].startswith("pixee:") and r["input"] != r["expected"] and not r["files"]]
    by = collections.defaultdict(list)
    for r in recs: by[r["codemod"]].append(r)
    mk = sorted(c03.MANIFESTS)
    jobs = []; i = 0
    per = 2 if tier == "quick" else 8
    for cid, rs in sorted(by.items()):
        for r in rnd.sample(rs, min(per, len(rs))):
            files = {"code.py": b64(r["input"].encode())}
            m = mk[i % len(mk)]; i += 1
            files.update({k: b64(v) for k, v in c03.MANIFESTS[m].items()})
            extra = rnd.choice(([], ["--verbose"], ["--max-workers", "4"], ["--path-include", "*.py"]))
            for dry in (True, False):
                jobs.append({"id": f"{cid}|{hashlib.sha1(r['input'].encode()).hexdigest()[:8]}|{m}|{'dry' if dry else 'real'}", "pair": f"{cid}|{i}", "cid": cid, "dry": dry, "files": files,
                             "argv": ["{proj}", "--output", "{out}", "--codemod-include", cid] + extra + (["--dry-run"] if dry else []), "monitors": {"snap": False, "fs": True}, "want_before": True})
    for mkey in mk:
        for cid, src in c03.DEP_CODEMODS.items():
            files = {"app.py": b64(src.encode())}; files.update({k: b64(v) for k, v in c03.MANIFESTS[mkey].items()})
            for dry in (True, False):
                jobs.append({"id": f"dep|{cid}|{mkey}|{'dry' if dry else 'real'}", "pair": f"dep|{cid}|{mkey}", "cid": cid, "dry": dry, "files": files,
                             "argv": ["{proj}", "--output", "{out}", "--codemod-include", cid] + (["--dry-run"] if dry else []), "monitors": {"snap": False, "fs": True}, "want_before": True})
    return jobs

_pairs = {}
def norm(rep, proj):
    r = copy.deepcopy(rep); r["run"]["elapsed"] = 0; r["run"]["directory"] = "D"; r["run"]["commandLine"] = "C"
    s = json.dumps(r, sort_keys=True).replace(proj, "P")
    return s

def judge(job, res):
    v = []; st = collections.Counter(); nt = []
    run = res["runs"][0]
    if run["rc"] != 0 or run["exc"]:
        st["run_failed"] += 1; return v, st, nt
    cm = job["cid"].split("/")[1]
    if job["dry"]:
        if run["tree"] != run["before_tree"]:
            diff = sorted(k for k in set(run["tree"]) | set(run["before_tree"]) if run["tree"].get(k) != run["before_tree"].get(k))
            v.append(Violation("C04", f"dry-run-wrote/{os.path.splitext(diff[0])[1] or diff[0]}", f"--dry-run changed {diff}", {"codemod": job["cid"], "argv": job["argv"], "changed": diff}))
        for e in run["trace"]:
            if e["k"] == "fs":
                p = e["path"] if isinstance(e["path"], str) else e["path"][0]
                if p.startswith(run["proj"] + "/") or p == run["proj"]:
                    v.append(Violation("C04", "dry-run-fs-event", f"{e['op']} on {p} during --dry-run", {"codemod": job["cid"], "argv": job["argv"]}))
    key = job["pair"]
    _pairs.setdefault(key, {})["dry" if job["dry"] else "real"] = (norm(run["report"], run["proj"]), run["tree"] != run["before_tree"])
    if len(_pairs[key]) == 2:
        (rd, _), (rr, real_changed) = _pairs[key]["dry"], _pairs[key]["real"]
        if real_changed: nt.append(key); st["fired:" + job["cid"]] += 1
        if rd != rr:
            v.append(Violation("C04", f"dry-report-differs/{cm}", "dry-run report differs from the real run's", {"codemod": job["cid"], "dry": rd[:1500], "real": rr[:1500]}))
    return v, st, nt

def main():
    return run_check("C04", "exploration", plan, judge, "dry/real pairs over codemods x manifests x options with audit-hook fs monitor and tree snapshots; non-trivial = the paired real run changed the tree", 40, deciding_counters=("_apply",), timeout=300, module=__name__)

if __name__ == "__main__":
    sys.exit(main())
