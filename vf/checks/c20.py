"""C20: the exit status of the real, unmodified console script over an argv / environment / output-path grammar (black box).

Deciding monitor: the process exit status and the existence of the report file, observed from outside the process.
Oracle: the status table of the property statement, evaluated for the first applicable condition
(argument errors are detected while parsing, before anything else; then the target directory; then result files;
then the AI-client configuration; then the report write)."""
import collections, json, os, random, shutil, sys, time
from vf import blackbox as BB
from vf.runner import Violation, finish, tier_seed

SRC = {"a.py": b"x = set([1])\n", "pkg/b.py": b"import os\ny = 1\n"}
CM = ["--codemod-include", "pixee:python/use-set-literal"]
SARIF = json.dumps({"runs": [{"tool": {"driver": {"name": "Semgrep OSS"}}, "results": []}]})
CODEQL = json.dumps({"runs": [{"tool": {"driver": {"name": "CodeQL"}}, "results": []}]})
SONAR = json.dumps({"issues": [], "hotspots": []})
DDOJO = json.dumps({"results": []})

def setup_files(d):
    w = lambda n, t: open(os.path.join(d, n), "w").write(t)
    # SARIF files with several runs: a second tool's run, a run the tool detection cannot read (no driver name), a run of an unknown tool
    w("m_nameless.sarif", json.dumps({"runs": [{"tool": {"driver": {"name": "Semgrep OSS"}}, "results": []}, {"tool": {"driver": {"rules": []}}, "results": []}]}))
    w("m_nameless_first.sarif", json.dumps({"runs": [{"tool": {"driver": {"rules": []}}, "results": []}, {"tool": {"driver": {"name": "Semgrep OSS"}}, "results": []}]}))
    w("m_unknown.sarif", json.dumps({"runs": [{"tool": {"driver": {"name": "Bandit"}}, "results": []}, {"tool": {"driver": {"name": "CodeQL"}}, "results": []}]}))
    w("s1.sarif", SARIF); w("s2.sarif", SARIF); w("c.sarif", CODEQL); w("c2.sarif", CODEQL); w("sonar.json", SONAR); w("hot.json", SONAR); w("dd.json", DDOJO)
    p = os.path.join(d, "ro"); os.makedirs(p); os.chmod(p, 0o555)
    open(os.path.join(d, "afile"), "w").write("x")

# ---- fragments of the option grammar -------------------------------------------------------------------------------------
VALID = [  # (label, args) — each keeps the run valid
    ("dry", ["--dry-run"]), ("no-dry", ["--no-dry-run"]), ("verbose", ["--verbose"]), ("no-verbose", ["--no-verbose"]), ("log-json", ["--log-format", "json"]), ("log-human", ["--log-format", "human"]),
    ("project", ["--project-name", "proj x"]), ("workers", ["--max-workers", "3"]), ("fmt-codetf", ["--output-format", "codetf"]), ("fmt-diff", ["--output-format", "diff"]),
    ("inc-path", ["--path-include", "*.py,pkg/*.py:2"]), ("exc-path", ["--path-exclude", "pkg/*"]), ("sarif", ["--sarif", "{dir}/s1.sarif"]), ("sarif-2tools", ["--sarif", "{dir}/s1.sarif,{dir}/c.sarif"]), ("sarif-nameless-run", ["--sarif", "{dir}/m_nameless.sarif"]), ("sarif-unknown+codeql-runs", ["--sarif", "{dir}/m_unknown.sarif,{dir}/s1.sarif"]),
    ("sonar", ["--sonar-issues-json", "{dir}/sonar.json"]), ("hotspots", ["--sonar-hotspots-json", "{dir}/hot.json"]), ("defectdojo", ["--defectdojo-findings-json", "{dir}/dd.json"]),
]
SELECT = [("include", CM), ("exclude", ["--codemod-exclude", "pixee:python/*,sonar:*,semgrep:*,defectdojo:*,codeql:*"]), ("unknown-include", ["--codemod-include", "nope:python/none"]), ("include-twice", CM + CM)]
ARG_ERRORS = [  # -> 3
    ("unknown-flag", ["--bogus"]), ("include-and-exclude", ["--codemod-exclude", "b"]), ("bad-int", ["--max-workers", "abc"]), ("bad-choice", ["--output-format", "xml"]),
    ("bad-log-format", ["--log-format", "yaml"]), ("missing-operand-output", ["--output"]), ("second-directory", ["{proj}"]), ("missing-operand-include", ["--path-include"]),
    ("abbrev-ambiguous", ["--sonar", "x"]), ("float-int", ["--max-workers", "1.5"]),
]
MISSING = [  # -> 1
    ("missing-sarif", ["--sarif", "{dir}/missing.sarif"]), ("missing-sonar-issues", ["--sonar-issues-json", "{dir}/missing.json"]), ("missing-sonar-hotspots", ["--sonar-hotspots-json", "{dir}/missing.json"]),
    ("missing-defectdojo", ["--defectdojo-findings-json", "{dir}/missing.json"]), ("dup-tool-sarif", ["--sarif", "{dir}/s1.sarif,{dir}/s2.sarif"]), ("dup-tool-codeql", ["--sarif", "{dir}/c.sarif,{dir}/s1.sarif,{dir}/c2.sarif"]),
    ("one-of-two-sonar-missing", ["--sonar-issues-json", "{dir}/sonar.json,{dir}/missing.json"]),
    # the same tool twice, one of the files carrying further runs (unreadable / unknown tool) before or after the tool's run
    ("dup-tool-sarif-with-nameless-run", ["--sarif", "{dir}/s1.sarif,{dir}/m_nameless.sarif"]), ("dup-tool-sarif-with-nameless-run-first", ["--sarif", "{dir}/m_nameless_first.sarif,{dir}/s1.sarif"]),
    ("dup-tool-codeql-with-unknown-run", ["--sarif", "{dir}/m_unknown.sarif,{dir}/c.sarif"]),
]
AI_BAD = [  # -> 3
    ("azure-key-only", {"CODEMODDER_AZURE_OPENAI_API_KEY": "k"}), ("azure-endpoint-only", {"CODEMODDER_AZURE_OPENAI_ENDPOINT": "https://e"}),
    ("llama-key-only", {"CODEMODDER_AZURE_LLAMA_API_KEY": "k"}), ("llama-endpoint-only", {"CODEMODDER_AZURE_LLAMA_ENDPOINT": "https://e"}),
    # an empty value is an unset one: half a pair again
    ("azure-key-empty-endpoint-set", {"CODEMODDER_AZURE_OPENAI_API_KEY": "", "CODEMODDER_AZURE_OPENAI_ENDPOINT": "https://e"}), ("azure-endpoint-empty-key-set", {"CODEMODDER_AZURE_OPENAI_API_KEY": "k", "CODEMODDER_AZURE_OPENAI_ENDPOINT": ""}),
    ("llama-key-empty-endpoint-set", {"CODEMODDER_AZURE_LLAMA_API_KEY": "", "CODEMODDER_AZURE_LLAMA_ENDPOINT": "https://e"}), ("llama-endpoint-empty-key-set", {"CODEMODDER_AZURE_LLAMA_API_KEY": "k", "CODEMODDER_AZURE_LLAMA_ENDPOINT": ""}),
]
AI_OK = [("ai-empty-values", {"CODEMODDER_AZURE_OPENAI_API_KEY": "", "CODEMODDER_AZURE_OPENAI_ENDPOINT": ""}), ("ai-unrelated", {"CODEMODDER_AZURE_OPENAI_API_VERSION": "2024-02-01"}),
         ("azure-key-empty-endpoint-absent", {"CODEMODDER_AZURE_OPENAI_API_KEY": ""}), ("azure-endpoint-empty-key-absent", {"CODEMODDER_AZURE_OPENAI_ENDPOINT": ""}),
         ("llama-key-empty-endpoint-absent", {"CODEMODDER_AZURE_LLAMA_API_KEY": ""}), ("llama-both-empty", {"CODEMODDER_AZURE_LLAMA_API_KEY": "", "CODEMODDER_AZURE_LLAMA_ENDPOINT": ""})]
UNWRITABLE = [("out-missing-parent", "{dir}/nodir/r.json"), ("out-is-directory", "{dir}"), ("out-under-a-file", "{dir}/afile/r.json")]
INFO = ["--list", "--describe", "--version", "--help"]

def mk(name, argv, expect, cls, env=None, report=None, outpath="{dir}/r.json"):
    return {"name": name, "argv": argv, "expect": expect, "cls": cls, "env": env or {}, "report": report, "outpath": outpath}

def enumerated():
    C = []; out = ["--output", "{dir}/r.json"]
    C.append(mk("ok", ["{proj}"] + CM + out, 0, "completed", report=True))
    C.append(mk("ok-no-output", ["{proj}"] + CM, 0, "completed"))
    C.append(mk("ok-default-selection-excluded-all", ["{proj}", "--codemod-exclude", "pixee:python/*"] + out, 0, "completed", report=True))
    for lab, a in VALID: C.append(mk("ok+" + lab, ["{proj}"] + CM + a + out, 0, "completed", report=True))
    for lab, a in SELECT[1:]: C.append(mk("ok-select-" + lab, ["{proj}"] + a + out, 0, "completed", report=True))
    C.append(mk("ok-repeated-output", ["{proj}"] + CM + ["--output", "{dir}/r0.json"] + out, 0, "completed", report=True))
    C.append(mk("ok-empty-dir", ["{dir}/emptydir"] + CM + out, 0, "completed", report=True))
    for f in INFO:
        C.append(mk("info" + f, [f], 0, "info")); C.append(mk("info-dir" + f, ["{proj}", f], 0, "info")); C.append(mk("info-after-opts" + f, ["{proj}"] + CM + [f], 0, "info"))
    C.append(mk("missing-dir", ["{dir}/nope"] + CM + out, 1, "missing-directory", report=False))
    C.append(mk("dir-is-empty-string-sibling", ["{dir}/nope/deeper"] + CM + out, 1, "missing-directory", report=False))
    for lab, a in MISSING: C.append(mk(lab, ["{proj}"] + a + out, 1, "missing-or-duplicate-result-file", report=False))
    for lab, a in ARG_ERRORS: C.append(mk(lab, ["{proj}"] + CM + a, 3, "argument-error"))
    C.append(mk("no-args", [], 3, "argument-error"))
    for lab, e in AI_BAD: C.append(mk("ai-" + lab, ["{proj}"] + CM + out, 3, "ai-misconfigured", env=e, report=False))
    for lab, e in AI_OK: C.append(mk(lab, ["{proj}"] + CM + out, 0, "completed", env=e, report=True))
    for lab, p in UNWRITABLE: C.append(mk(lab, ["{proj}"] + CM + ["--output", p], 2, "unwritable-output", outpath=p))
    C.append(mk("out-readonly-dir", ["{proj}"] + CM + ["--output", "{dir}/ro/r.json"], 2, "unwritable-output-unless-root", outpath="{dir}/ro/r.json"))
    # names that are not valid UTF-8 (Linux paths are bytes): the report cannot be encoded as JSON, i.e. it cannot be written -> 2; valid non-ASCII names are fine -> 0
    C.append(dict(mk("target-dir-name-not-utf8", ["{proj}"] + CM + out, 2, "unwritable-output"), target_name=b"proj_\xff"))
    C.append(dict(mk("target-dir-name-non-ascii", ["{proj}"] + CM + out, 0, "completed", report=True), target_name="proj_\u00e9\u2713".encode("utf-8")))
    C.append(dict(mk("changed-file-name-not-utf8", ["{proj}"] + CM + out, 2, "unwritable-output"), extra_file=b"m_\xff.py"))
    C.append(dict(mk("changed-file-name-non-ascii", ["{proj}"] + CM + out, 0, "completed", report=True), extra_file="m_\u00e9.py".encode("utf-8")))
    # every failure class again under the options that change what the run does on its way there (logging level / format, dry run, worker count): the status is the same
    for vlab, va in [x for x in VALID if x[0] in ("verbose", "log-json", "dry", "workers")]:
        for lab, a in MISSING: C.append(mk(lab + "+" + vlab, ["{proj}"] + va + a + out, 1, "missing-or-duplicate-result-file", report=False))
        for lab, p in UNWRITABLE[:2]: C.append(mk(lab + "+" + vlab, ["{proj}"] + CM + va + ["--output", p], 2, "unwritable-output", outpath=p))
        C.append(mk("missing-dir+" + vlab, ["{dir}/nope"] + CM + va + out, 1, "missing-directory", report=False))
    # precedence
    C.append(mk("prec-bad-flag+missing-dir", ["{dir}/nope", "--bogus"], 3, "argument-error"))
    C.append(mk("prec-missing-dir+missing-sarif", ["{dir}/nope", "--sarif", "{dir}/missing.sarif"] + out, 1, "missing-directory", report=False))
    C.append(mk("prec-missing-sarif+unwritable", ["{proj}", "--sarif", "{dir}/missing.sarif", "--output", "{dir}/nodir/r.json"], 1, "missing-or-duplicate-result-file", outpath="{dir}/nodir/r.json"))
    C.append(mk("prec-arg-error+ai", ["{proj}", "--bogus"], 3, "argument-error", env=AI_BAD[0][1]))
    C.append(mk("prec-ai+unwritable", ["{proj}"] + CM + ["--output", "{dir}/nodir/r.json"], 3, "ai-misconfigured", env=AI_BAD[1][1], outpath="{dir}/nodir/r.json"))
    return C

def sampled(rnd, n):
    C = []
    for k in range(n):
        groups = collections.OrderedDict()
        for lab, a in rnd.sample(VALID, rnd.randint(0, 4)): groups.setdefault(a[0], (lab, a))   # one use per option
        parts = [list(a) for lab, a in groups.values()]; labs = [lab for lab, a in groups.values()]
        sel = rnd.choice(SELECT); parts.append(list(sel[1])); labs.append(sel[0])
        kind = rnd.choice(("ok", "ok", "arg", "missing", "missingdir", "ai", "unwritable", "arg+missing", "missing+unwritable", "missingdir+unwritable"))
        env = {}; expect = 0; cls = "completed"; target = "{proj}"; outp = "{dir}/r.json"; report = True
        if "arg" in kind:
            lab, a = rnd.choice(ARG_ERRORS)
            if lab == "include-and-exclude" and sel[0] == "exclude": a = CM
            parts.append(list(a)); labs.append(lab); expect, cls, report = 3, "argument-error", None
        if "missing" in kind.split("+") or kind == "missing":
            lab, a = rnd.choice(MISSING)
            parts = [p for p in parts if p[0] != a[0]] + [list(a)]; labs.append(lab)
            if expect == 0: expect, cls, report = 1, "missing-or-duplicate-result-file", False
        if "missingdir" in kind:
            target = "{dir}/nope"; labs.append("missing-dir")
            if expect == 0: expect, cls, report = 1, "missing-directory", False
        if kind == "ai":
            lab, env = rnd.choice(AI_BAD); labs.append(lab); expect, cls, report = 3, "ai-misconfigured", False
        if "unwritable" in kind:
            lab, outp = rnd.choice(UNWRITABLE); labs.append(lab)
            if expect == 0: expect, cls = 2, "unwritable-output"
            report = None
        rnd.shuffle(parts)
        pos = rnd.randint(0, len(parts))
        # the positional directory may appear anywhere between option groups
        flat = []; inserted = False
        for i, p in enumerate(parts):
            if i == pos: flat.append(target); inserted = True
            flat += p
        if not inserted: flat.append(target)
        flat += ["--output", outp]
        C.append(mk(f"rand{k}:" + "+".join(labs), flat, expect, cls, env=env, report=report, outpath=outp))
    return C

def one_bytes(c):
    """invocations whose paths are raw bytes (not expressible as str argv)"""
    import subprocess, tempfile
    from vf import env
    d = tempfile.mkdtemp(prefix="vf_bb_").encode(); proj = os.path.join(d, c.get("target_name") or b"proj"); os.makedirs(proj)
    for rel, data in SRC.items():
        p = os.path.join(proj, rel.encode()); os.makedirs(os.path.dirname(p), exist_ok=True); open(p, "wb").write(data)
    if c.get("extra_file"): open(os.path.join(proj, c["extra_file"]), "wb").write(b"y = set([2])\n")
    e = env.child_env(c["env"], scratch_home=os.path.join(d.decode(), "home")); os.makedirs(e["HOME"], exist_ok=True); e["TMPDIR"] = os.path.join(d.decode(), "tmp"); os.makedirs(e["TMPDIR"], exist_ok=True)
    args = [proj if a == "{proj}" else a.replace("{dir}", d.decode()).encode() for a in c["argv"]]
    try:
        r = subprocess.run([os.path.join(env.VENV_BIN, "codemodder").encode()] + args, env=e, capture_output=True, timeout=300, cwd=d)
        out = {"rc": r.returncode, "stderr": r.stderr.decode("utf-8", "replace")[-4000:], "status": "ok"}
    except subprocess.TimeoutExpired: out = {"rc": None, "status": "timeout"}
    outp = c["outpath"].replace("{dir}", d.decode())
    out["report_exists"] = os.path.isfile(outp); out["report_valid"] = None
    if out["report_exists"]:
        try: json.load(open(outp, encoding="utf-8")); out["report_valid"] = True
        except Exception: out["report_valid"] = False
    shutil.rmtree(d, ignore_errors=True)
    return out

def one(c):
    if c.get("target_name") or c.get("extra_file"): return one_bytes(c)
    def setup(d):
        setup_files(d); os.makedirs(os.path.join(d, "emptydir"))
    r = BB.run_cli(c["argv"], files=SRC, extra_env=c["env"], setup=setup, timeout=300)
    outp = c["outpath"].replace("{dir}", r["dir"])
    r["report_exists"] = os.path.isfile(outp)
    r["report_valid"] = None
    if r["report_exists"]:
        try: json.load(open(outp, encoding="utf-8")); r["report_valid"] = True
        except Exception: r["report_valid"] = False
    try: os.chmod(os.path.join(r["dir"], "ro"), 0o755)
    except OSError: pass
    shutil.rmtree(r["dir"], ignore_errors=True)
    return r

def evaluate(c, r):
    """-> list of (key, what)"""
    out = []
    if c["cls"] == "unwritable-output-unless-root" and os.geteuid() == 0:
        # root ignores directory permissions: the report *is* written, so 0 is the documented status
        if r["rc"] != 0 or not r["report_exists"]: out.append((f"exit-status/readonly-dir-as-root/expected-0-got-{r['rc']}", "root can write into a 0555 directory"))
        return out
    if r["rc"] != c["expect"]:
        out.append((f"exit-status/{c['cls']}/expected-{c['expect']}-got-{r['rc']}", f"{c['name']}: exit status {r['rc']}, documented {c['expect']}"))
    elif c["report"] is True and not (r["report_exists"] and r["report_valid"]):
        out.append(("report-missing-or-invalid-after-exit-0", f"{c['name']}: exit 0 but no readable report"))
    if r["rc"] not in (0, None) and r["report_exists"] and r["report_valid"]:
        out.append((f"nonzero-although-report-written/{c['cls']}", f"{c['name']}: exit {r['rc']} but the report file exists"))
    return out

def main():
    tier, seed = tier_seed(); t0 = time.time(); rnd = random.Random(f"C20:{seed}")
    C = enumerated() + sampled(rnd, 25 if tier == "quick" else 500)
    res = BB.pmap(one, C, workers=int(os.environ.get("VF_WORKERS", "14")))
    viols = []; n = 0; inconcl = 0; nt = set(); by_cls = collections.Counter(); by_rc = collections.Counter(); samples = []
    for c, r in zip(C, res):
        if r["status"] != "ok": inconcl += 1; continue
        n += 1; by_cls[c["cls"]] += 1; by_rc[str(r["rc"])] += 1
        nt.add((tuple(c["argv"]), tuple(sorted(c["env"].items()))))
        if len(samples) < 5 and c["name"].startswith("rand"): samples.append({"name": c["name"], "argv": c["argv"], "env": c["env"], "expected": c["expect"], "observed": r["rc"], "report_written": r["report_exists"]})
        for key, what in evaluate(c, r):
            cj = {k: (v_.decode("latin-1") if isinstance(v_, bytes) else v_) for k, v_ in c.items()}
            viols.append(Violation("C20", key, what, {"case": cj, "rc": r["rc"], "stderr_tail": r.get("stderr", "")[-600:], "report_exists": r["report_exists"]}, jobs=[cj]))
    # valid invocations over diverse real projects (the shared grid: every codemod, contexts, layouts, SAST inputs): a completed run exits 0 -
    # an exception escaping run() is the console script's exit status 1 with a traceback, which the table does not allow for valid input
    from vf.checks import grid
    from vf.runner import run_jobs
    gj = grid.plan("quick", seed); rnd2 = random.Random(f"C20-grid:{seed}")
    by_cm = collections.defaultdict(list)
    for j in gj: by_cm[j["cid"]].append(j)
    sample = [rnd2.choice(v_) for k_, v_ in sorted(by_cm.items())] + rnd2.sample(gj, min(len(gj), 60 if tier == "quick" else 600))
    for j in sample: j["repeat"] = 1; j["want_trace"] = False
    gres = run_jobs(sample, timeout=600); n_grid = 0
    for j, r in zip(sample, gres):
        if r.get("status") != "ok": inconcl += 1; continue
        run = r["runs"][0]; n += 1; n_grid += 1; by_cls["completed"] += 1; by_rc[str(run["rc"])] += 1
        nt.add(("grid", j["id"]))
        if run["rc"] != 0 or run["exc"]:
            what = (run["exc"] or "").split(":")[0] or f"rc={run['rc']}"
            viols.append(Violation("C20", f"exit-status/completed/expected-0-got-{what}/{j['cid'].split('/')[1]}", f"valid invocation of {j['cid']} did not complete with status 0: rc={run['rc']} exc={run['exc']}",
                                   {"argv": j["argv"], "log_tail": run["log"][-1200:]}, jobs=[{k: v for k, v in j.items() if not k.startswith("_")}]))
    return finish("C20", "exploration", tier, seed, t0, evaluations=n, nontrivial=nt, violations=viols, min_nontrivial=40, inconclusive_cases=inconcl, samples=samples, module=__name__,
                  rule="enumerated table (every valid option alone, every error class alone, precedence pairs, info flags, AI-client environments, unwritable outputs) + seeded random compositions of option groups with 0-2 error conditions, positional directory at a random position; every invocation is decisive; distinct = distinct (argv, env)",
                  stats={"by_condition_class": dict(by_cls), "by_observed_status": dict(by_rc), "valid_grid_runs": n_grid}, required={k: by_cls.get(k, 0) for k in ("completed", "info", "missing-directory", "missing-or-duplicate-result-file", "argument-error", "ai-misconfigured", "unwritable-output")},
                  assumptions=["the documented status table of the property statement; precedence = order in which the run can detect the conditions (arguments, directory, result files, AI configuration, report)",
                               "complete AI-client configurations are not generated: the openai package installed in this sandbox cannot construct a client (environment artefact, see DESIGN.md C20)",
                               "malformed result-file content is outside the statement and is not generated"])

def replay(art):
    out = []
    for c in art.get("jobs") or []:
        for k in ("target_name", "extra_file"):
            if isinstance(c.get(k), str): c[k] = c[k].encode("latin-1")
        if "files" in c:
            from vf.runner import run_jobs
            r = run_jobs([c], timeout=600)[0]
            if r.get("status") == "ok" and (r["runs"][0]["rc"] != 0 or r["runs"][0]["exc"]): out.append(Violation("C20", art["key"], "reproduced", {}))
            continue
        r = one(c)
        for key, what in evaluate(c, r): out.append(Violation("C20", key, what, {"rc": r["rc"]}))
    return out

if __name__ == "__main__":
    sys.exit(main())
