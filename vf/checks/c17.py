"""C17: executed codemods == reference selection (ordered include, wildcards, excludes, eligibility)."""
import base64, collections, json, os, random, re, sys
from vf.runner import run_check, Violation
b64 = lambda b: base64.b64encode(b).decode()

DEFAULT_EXCLUDED = ["pixee:python/order-imports", "pixee:python/unused-imports", "pixee:python/fix-empty-sequence-comparison"]

def glob_match(pat, s):
    # '*' matches any run of characters; everything else literal; whole id must match
    rx = "".join(".*" if c == "*" else re.escape(c) for c in pat)
    return re.fullmatch(rx, s) is not None

def reference(registry_ids, include, exclude, sast):
    if include:
        out = []
        for item in include:
            if "*" in item:
                for i in registry_ids:
                    if glob_match(item, i) and i not in out: out.append(i)
            elif item in registry_ids and item not in out: out.append(item)
        return out
    eligible = [i for i in registry_ids if (not i.startswith("pixee:")) == bool(sast)]
    ex = list(exclude or []) + DEFAULT_EXCLUDED
    return [i for i in eligible if not any((glob_match(e, i) if "*" in e else e == i) for e in ex)]

def registry_ids():
    # registry order depends on the hash seed of the process that builds it: read it in a worker-like process with the same seed
    import subprocess
    from vf import env
    out = subprocess.run([env.PY, "-c", "from codemodder import registry; print('\\n'.join(registry.load_registered_codemods().ids))"], env=env.child_env({"PYTHONHASHSEED": "0"}), capture_output=True, text=True, timeout=120)
    return out.stdout.split()

SONAR = json.dumps({"issues": []})
RESULT_FILES = {"sonar.json": SONAR, "hot.json": json.dumps({"hotspots": []}), "dd.json": json.dumps({"results": []}), "empty.sarif": json.dumps({"version": "2.1.0", "runs": []}),
                "semgrep.sarif": json.dumps({"runs": [{"tool": {"driver": {"name": "Semgrep OSS"}}, "results": []}]}), "codeql.sarif": json.dumps({"runs": [{"tool": {"driver": {"name": "CodeQL"}}, "results": []}]}),
                "bandit.sarif": json.dumps({"runs": [{"tool": {"driver": {"name": "Bandit"}}, "results": []}]})}
def plan(tier, seed):
    rnd = random.Random(f"C17:{seed}")
    ids = registry_ids()
    names = sorted({i.split("/")[1] for i in ids})
    def pat():
        i = rnd.choice(ids); kind = rnd.choice(("prefix", "suffix", "infix", "origin", "all-origin", "mid", "star-matches-empty", "head-tail-overlap", "two-stars", "two-stars-overlap", "regex-metachar"))
        n = i.split("/")[1]; k = rnd.randint(2, max(2, len(n) - 1))
        a = rnd.randint(1, len(i) - 2); ov = rnd.randint(1, min(3, len(i) - a - 1)); b = rnd.randint(a, len(i) - 1)
        return {"prefix": i[: len(i) - len(n) + k] + "*", "suffix": "*" + n[-k:], "infix": "*" + n[1:k] + "*", "origin": i.split(":")[0] + ":*", "all-origin": i.split("/")[0] + "/*", "mid": i.split("/")[0] + "/" + n[:2] + "*" + n[-2:],
                "star-matches-empty": i[:a] + "*" + i[a:],                    # must select i (the star matches nothing)
                "head-tail-overlap": i[:a + ov] + "*" + i[a:],                 # head and tail share characters of i: must NOT select i
                "two-stars": i[:a] + "*" + i[a + 1:b] + "*" + i[b:] if b > a + 1 else i[:a] + "**" + i[a:],
                "two-stars-overlap": i[:a] + "*" + i[max(0, a - 1):b] + "*" + i[b:],
                "regex-metachar": i[:a].replace("-", ".") + "*"}[kind]         # '.', '+', '(' ... are literal characters in a pattern
    cases = []
    fixed = [(["pixee:python/secure-r*", "pixee:python/secure-*"], None), (["*secure"], None), (["*random"], None), (["pixee:python/secure-random", "nope:python/x", "pixee:python/url-sandbox"], None),
             (["pixee:python/url-sandbox", "pixee:python/secure-random"], None), (None, ["pixee:python/secure-random"]), (None, ["pixee:python/secure-*"]), (None, None), (["sonar:python/secure-random"], None), (["*"], None), (None, ["*"]),
             # empty entries (an empty shell variable, a stray comma): an empty entry names no codemod - it is not "no list given"
             ([""], None), (["", ""], None), (["", "pixee:python/secure-random", ""], None), (None, [""]), (None, ["", "pixee:python/secure-random"])]
    for inc, exc in fixed: cases.append((inc, exc, False)); cases.append((inc, exc, True))
    n = 60 if tier == "quick" else 800
    def covering(i):
        n_ = i.split("/")[1]; k_ = rnd.randint(2, max(2, len(n_) - 1))
        return rnd.choice((i[: len(i) - len(n_) + k_] + "*", "*" + n_[-k_:], i.split("/")[0] + "/*", i.split(":")[0] + ":*", "*" + n_[1:k_] + "*"))
    # one codemod reached by several entries of the same include list (a wildcard and the literal id it covers, in either order; two overlapping wildcards): it runs once, at its first position
    for q in range(12 if tier == "quick" else 120):
        i = rnd.choice(ids); other = rnd.choice(ids)
        inc = {0: [covering(i), i], 1: [i, covering(i)], 2: [covering(i), other, i], 3: [covering(i), covering(i)], 4: [covering(i), "unknown:python/x", i, covering(other)], 5: [i, other, covering(i), other]}[q % 6]
        cases.append((inc, None, i.split(":")[0] != "pixee" and rnd.random() < 0.5))
    # a bare `*` somewhere in the list: what is listed before it runs first, in the order given; the star only appends what is not selected yet
    for q in range(6 if tier == "quick" else 40):
        i = rnd.choice(ids); other = rnd.choice(ids)
        cases.append(({0: [i, "*"], 1: [covering(i), other, "*"], 2: ["*", i], 3: [other, "*", i]}[q % 4], None, q % 3 == 0))
    for _ in range(n):
        if rnd.random() < 0.5:
            inc = [rnd.choice((rnd.choice(ids), pat(), pat(), "unknown:python/" + rnd.choice(names))) for _ in range(rnd.randint(1, 4))]; exc = None
        else:
            inc = None; exc = [rnd.choice((rnd.choice(ids), pat(), "unknown:python/x")) for _ in range(rnd.randint(1, 4))]
        cases.append((inc, exc, rnd.random() < 0.4))
    jobs = []
    for k, (inc, exc, sast) in enumerate(cases):
        # the CLI de-duplicates literal items (CsvListAction): mirror that on the *input* side only
        def dedup(l): return list(dict.fromkeys(l)) if l else l
        argv = ["{proj}", "--output", "{out}"]
        if inc: argv += ["--codemod-include", ",".join(inc)]
        if exc: argv += ["--codemod-exclude", ",".join(exc)]
        # how the SAST inputs are supplied decides the eligible set: Sonar ISSUE files or SARIF files (of whatever tool, even with no recognised run) => tool-specific codemods;
        # hotspots-only / DefectDojo-only do not switch the mode
        mode = None
        if sast:
            mode = rnd.choice(("sonar-issues", "sarif-semgrep", "sarif-codeql", "sarif-unrecognised-tool", "sarif-no-runs", "sarif-two-tools", "sonar-issues+hotspots"))
            argv += {"sonar-issues": ["--sonar-issues-json", "{res}/sonar.json"], "sarif-semgrep": ["--sarif", "{res}/semgrep.sarif"], "sarif-codeql": ["--sarif", "{res}/codeql.sarif"],
                     "sarif-unrecognised-tool": ["--sarif", "{res}/bandit.sarif"], "sarif-no-runs": ["--sarif", "{res}/empty.sarif"], "sarif-two-tools": ["--sarif", "{res}/semgrep.sarif,{res}/codeql.sarif"],
                     "sonar-issues+hotspots": ["--sonar-issues-json", "{res}/sonar.json", "--sonar-hotspots-json", "{res}/hot.json"]}[mode]
        elif rnd.random() < 0.25:
            mode = rnd.choice(("hotspots-only", "defectdojo-only"))
            argv += {"hotspots-only": ["--sonar-hotspots-json", "{res}/hot.json"], "defectdojo-only": ["--defectdojo-findings-json", "{res}/dd.json"]}[mode]
        jobs.append({"id": f"sel{k}", "include": dedup(inc), "exclude": dedup(exc), "sast": sast, "ids": ids, "files": {"a.py": b64(b"x = 1\n")}, "mode": mode, "result_files": RESULT_FILES,
                     "argv": argv, "stub_semgrep": True, "env": {}, "monitors": {"snap": False, "pipe": False, "write": False, "file": False, "dep": False, "ctx": False, "sg": False}})
    return jobs

def judge(job, res):
    v = []; st = collections.Counter(); nt = []
    run = res["runs"][0]
    if run["rc"] != 0 or run["exc"]:
        st["run_failed"] += 1
        v.append(Violation("C17", "run-failed", f"rc={run['rc']} exc={run['exc']}", {"argv": job["argv"]})); return v, st, nt
    executed = [e["cm"] for e in run["trace"] if e["k"] == "cm_begin"]
    reported = [r["codemod"] for r in run["report"]["results"]]
    logged = re.findall(r"^running codemod (\S+)$", run["log"], flags=re.M)
    # registry order inside the worker process may differ from ours only by collection order; use the worker's own order: ids sorted by first appearance is unknown -> compare as ordered within origin groups
    ref = reference(job["ids"], job["include"], job["exclude"], job["sast"])
    nt.append(job["id"])
    def norm(seq):
        # collection (origin) order is hash-seed dependent (C11); compare order within each origin and, for explicit includes, the full order
        return seq
    same_members = sorted(executed) == sorted(ref)
    witness = {"include": job["include"], "exclude": job["exclude"], "sast": job["sast"], "how_supplied": job.get("mode"), "executed": executed, "reference": ref}
    if executed != reported: v.append(Violation("C17", "report-order-differs-from-execution", "results[] order != executed order", witness))
    if logged and logged != executed: v.append(Violation("C17", "progress-lines-differ", "running-codemod lines != executed", witness))
    if not same_members:
        extra = sorted(set(executed) - set(ref)); missing = sorted(set(ref) - set(executed)); dup = sorted({x for x in executed if executed.count(x) > 1})
        if dup: key = "wildcard-duplicates" if job["include"] and any("*" in i for i in job["include"]) else "duplicates"
        elif extra and job["include"]: key = "wildcard-unanchored" if any("*" in i for i in job["include"]) else "include-extra"
        elif extra and set(extra) <= set(DEFAULT_EXCLUDED) and job["exclude"]: key = "exclude-reenables-defaults"
        elif (extra or missing) and not job["include"] and job.get("mode") and ({e.split(":")[0] == "pixee" for e in extra} == {True} and job["sast"] or {e.split(":")[0] != "pixee" for e in extra} == {True} and not job["sast"]): key = "wrong-eligibility-mode/" + job["mode"]
        elif extra: key = "exclude-misses" if job["exclude"] else "default-extra"
        else: key = "missing-codemods"
        v.append(Violation("C17", key, f"extra={extra[:5]} missing={missing[:5]} dup={dup[:5]}", witness))
    else:
        # same members: check order
        if job["include"]:
            def origin_groups(seq): return [x for x in seq]
            # within a wildcard, registry order of the *worker*; literal order must be preserved: compare by relative order of items from different include entries
            pos = {c: i for i, c in enumerate(executed)}
            # every codemod belongs to the FIRST entry of the list that selects it; the blocks of the entries run in the order of the entries (inside a wildcard's block the order is the registry's)
            taken = set(); blocks = []
            for item in job["include"]:
                block = [c for c in ref if c not in taken and (glob_match(item, c) if "*" in item else c == item)]
                taken.update(block)
                if block: blocks.append(block)
            ok = all(max(pos[c] for c in b1) < min(pos[c] for c in b2) for b1, b2 in zip(blocks, blocks[1:]))
            if not ok: v.append(Violation("C17", "include-order", "include order not respected", witness))
    return v, st, nt

def main():
    return run_check("C17", "exploration", plan, judge, "include/exclude lists over real ids, unknown ids and * patterns, both eligibility modes; executed order from codemod-boundary hook vs reference selection; non-trivial = every selection", 20, deciding_counters=("_apply",), timeout=300, module=__name__)

if __name__ == "__main__":
    sys.exit(main())
