"""PROTOTYPE C13: line-level include/exclude honoured for single-line sites; change.lineNumber == edited line."""
import base64, collections, difflib, hashlib, itertools, json, os, random, sys
from vf import corpus, gen
from vf.pool import Pool
from vf.runner import run_check, Violation
b64 = lambda b: base64.b64encode(b).decode(); unb = base64.b64decode
K = 3

def replicate(src, k=K):
    head, body = gen.split_head(src)
    if not body.strip(): return None
    if not body.endswith("\n"): body += "\n"
    out = head; ranges = []; line = head.count("\n")
    for i in range(k):
        out += f"# VF-SITE-{i}-BEGIN\n"; line += 1
        n = body.count("\n"); ranges.append((line + 1, line + n)); out += body; line += n
        out += f"# VF-SITE-{i}-END\n"; line += 1
    return out, ranges

def changed_lines(a, b):
    A = a.splitlines(); B = b.splitlines(); ch = set()
    for tag, i1, i2, j1, j2 in difflib.SequenceMatcher(None, A, B, autojunk=False).get_opcodes():
        if tag != "equal":
            for i in range(i1, max(i2, i1 + 1)): ch.add(i + 1)
    return ch

def plan(tier, seed):
    rnd = random.Random(f"C13:{seed}")
    recs = [r for r in corpus.load() if r["codemod"].startswith("pixee:") and r["input"] != r["expected"] and not r["files"]]
    by = collections.defaultdict(list)
    for r in recs: by[r["codemod"]].append(r)
    per = 3 if tier == "quick" else 12
    disc = []
    for cid, rs in sorted(by.items()):
        rs = sorted(rs, key=lambda r: (len(r["input"]), r["input"]))
        for r in rs[:per]:
            rep = replicate(r["input"])
            if rep is None: continue
            src, ranges = rep
            try: compile(src, "<s>", "exec")
            except SyntaxError: continue
            disc.append({"id": f"disc:{cid}:{hashlib.sha1(src.encode()).hexdigest()[:8]}", "cid": cid, "src": src, "ranges": ranges, "files": {"pkg/code.py": b64(src.encode())},
                         "argv": ["{proj}", "--output", "{out}", "--codemod-include", cid], "monitors": {"snap": False}})
    # group semgrep codemods? keep simple: individual runs
    pool = Pool(); res = pool.map(disc, timeout=300); pool.close()
    jobs = []
    for j, r in zip(disc, res):
        if r.get("status") != "ok" or r["runs"][0]["rc"] != 0: continue
        run = r["runs"][0]
        t = run["tree"].get("pkg/code.py")
        if not t or not t.startswith("F:"): continue
        after = unb(t[2:]).decode("utf-8", "replace")
        if after == j["src"]: continue
        ch = changed_lines(j["src"], after)
        sites = []
        for (s, e) in j["ranges"]:
            inside = sorted(c for c in ch if s <= c <= e)
            sites.append(inside[0] if len(inside) == 1 else None)
        outside = [c for c in ch if not any(s <= c <= e for s, e in j["ranges"])]
        if any(x is None for x in sites) or after.count("\n") != j["src"].count("\n") - 0 and False: continue
        if len(after.splitlines()) != len(j["src"].splitlines()) and not outside: continue  # multi-line edit
        # single-line in-place sites only (imports added elsewhere are fine)
        report_lines = sorted({c["lineNumber"] for rr in run["report"]["results"] for cs in rr["changeset"] for c in cs["changes"]})
        base = {"cid": j["cid"], "src": j["src"], "sites": sites, "ranges": j["ranges"], "disc_report_lines": report_lines, "n_out_before": len(outside)}
        subsets = [s for n in range(1, K + 1) for s in itertools.combinations(range(K), n)]
        spellings = ["pkg/code.py:{n}", "*.py:{n}", "**/code.py:{n}", "{abs}:{n}", "code.py:{n}"]
        picks = rnd.sample(subsets, 2 if tier == "quick" else len(subsets))
        for sub in picks:
            for mode in ("exclude", "include"):
                allowed = spellings[:4] if mode == "exclude" else spellings[:3]  # absolute spelling only for excludes
                sp = rnd.choice(allowed) if tier == "quick" else None
                for spell in ([sp] if sp else allowed):
                    pats = [spell.replace("{n}", str(sites[i])).replace("{abs}", "{proj}/pkg/code.py") for i in sub]
                    argv = ["{proj}", "--output", "{out}", "--codemod-include", j["cid"], "--path-" + mode, ",".join(pats)]
                    jobs.append(dict(base, id=f"{j['cid']}|{mode}|{sub}|{spell}", files={"pkg/code.py": b64(j["src"].encode())}, argv=argv, mode=mode, sub=sub, spell=spell, monitors={"snap": False}))
    return jobs

def site_text(text, i):
    a = text.find(f"# VF-SITE-{i}-BEGIN\n"); b = text.find(f"# VF-SITE-{i}-END\n")
    return text[a:b] if a >= 0 and b >= 0 else None

def judge(job, res):
    v = []; st = collections.Counter(); nt = []
    run = res["runs"][0]
    if run["rc"] != 0 or run["exc"]:
        st["run_failed"] += 1; return v, st, nt
    t = run["tree"].get("pkg/code.py"); after = unb(t[2:]).decode("utf-8", "replace")
    rewritten = {i for i in range(K) if site_text(after, i) != site_text(job["src"], i)}
    permitted = set(range(K)) - set(job["sub"]) if job["mode"] == "exclude" else set(job["sub"])
    nt.append(job["id"]); st["fired:" + job["cid"]] += 1
    cm = job["cid"].split("/")[1]; spell_cls = {"pkg/code.py:{n}": "relative", "*.py:{n}": "glob", "**/code.py:{n}": "glob", "{abs}:{n}": "absolute"}[job["spell"]]
    w = {"codemod": job["cid"], "mode": job["mode"], "lines": [job["sites"][i] for i in job["sub"]], "spelling": job["spell"], "rewritten_sites": sorted(rewritten), "permitted": sorted(permitted), "src": job["src"]}
    if rewritten - permitted:
        key = "relative-line-pattern" if spell_cls == "relative" else f"no-line-filter/{cm}"
        v.append(Violation("C13", key, f"sites {sorted(rewritten - permitted)} rewritten although not permitted ({job['mode']} {spell_cls})", w))
    if permitted - rewritten:
        v.append(Violation("C13", f"permitted-not-fixed/{cm}/{spell_cls}", f"sites {sorted(permitted - rewritten)} permitted but untouched", w))
    lines = sorted({c["lineNumber"] for rr in run["report"]["results"] for cs in rr["changeset"] for c in cs["changes"]})
    exp_lines = sorted(job["sites"][i] for i in rewritten)
    if rewritten and not (rewritten - permitted) and not set(exp_lines) <= set(lines):
        v.append(Violation("C13", f"change-line-mismatch/{cm}", f"change entries name lines {lines}, edited lines {exp_lines}", w))
    return v, st, nt

def main():
    return run_check("C13", "exploration", plan, judge, "codemods with single-line sites replicated 3x between sentinels; subsets of site lines excluded/included in relative, glob and absolute spellings; non-trivial = every pattern run on a triggering program", 50, deciding_counters=("pipe_libcst",), timeout=300, module=__name__)

if __name__ == "__main__":
    sys.exit(main())
