"""C13: line-level include/exclude honoured for single-line sites; change.lineNumber == edited line."""
import base64, collections, difflib, hashlib, itertools, json, os, random, sys
from vf import corpus, gen, sites as S
from vf.pool import Pool
from vf.runner import run_check, Violation, strip_job
b64 = lambda b: base64.b64encode(b).decode(); unb = base64.b64decode
K = 3
SKIPPED = collections.Counter()

def replicate(src, k=K, where="module"):
    """k copies of the seed body between statement sentinels; where = module | def (each copy is the body of its own function) | method | if-block"""
    import textwrap
    head, body = gen.split_head(src)
    if not body.strip(): return None
    if not body.endswith("\n"): body += "\n"
    if where == "paren":
        body = gen.paren_multiline(body)
        if body is None: return None
    out = head; ranges = []; line = head.count("\n")
    for i in range(k):
        out += S.BEGIN(i); line += 1
        if where in ("module", "paren"): wrapped = body; skip = 0
        elif where == "def": wrapped = f"def vf_site_fn_{i}(vf_p=None):\n" + textwrap.indent(body, "    "); skip = 1
        elif where == "method": wrapped = f"class VfSite{i}:\n    def meth(self):\n" + textwrap.indent(body, "        "); skip = 2
        else: wrapped = f"if VF_FLAG_{i}:\n" + textwrap.indent(body, "    "); skip = 1
        n = wrapped.count("\n"); ranges.append((line + 1 + skip, line + n)); out += wrapped; line += n
        out += S.END(i); line += 1
    return out, ranges

def changed_lines(a, b):
    A = a.splitlines(); B = b.splitlines(); ch = set()
    for tag, i1, i2, j1, j2 in difflib.SequenceMatcher(None, A, B, autojunk=False).get_opcodes():
        if tag != "equal":
            for i in range(i1, max(i2, i1 + 1)): ch.add(i + 1)
    return ch

def plan(tier, seed):
    rnd = random.Random(f"C13:{seed}")
    recs = [r for r in corpus.load() if r["codemod"].startswith("pixee:") and r["input"] != r["expected"] and not r["files"]]
    by = collections.defaultdict(list)
    for r in recs: by[r["codemod"]].append(r)
    per = 2 if tier == "quick" else 4
    disc = []
    for cid, rs in sorted(by.items()):
        rs = sorted(rs, key=lambda r: (len(r["input"]), r["input"]))
        sg = corpus.is_semgrep_detected(cid)      # each of their runs costs a semgrep invocation: the quick tier gives them one seed in one rotating form
        for ri, r in enumerate(rs[: ((1 if tier == "quick" else 2) if sg else per)]):
          forms = ("module", "def", "method", "if-block", "paren")      # paren: the site inside parentheses that open and close on other lines (the construct is still one line)
          # semgrep-detected codemods: one seed in one rotating form (quick), two seeds in two rotating forms (thorough); the others: every form in the thorough tier
          for where in (((forms[(len(disc) + seed) % 5],) if sg else ("module", forms[1 + (ri + seed) % 4], "paren")) if tier == "quick" else ((forms[(ri + seed) % 5], forms[(ri + seed + 2) % 5]) if sg else forms)):
            rep = replicate(r["input"], where=where)
            if rep is None: continue
            src, ranges = rep
            try: compile(src, "<s>", "exec")
            except SyntaxError: continue
            disc.append({"id": f"disc:{cid}:{where}:{hashlib.sha1(src.encode()).hexdigest()[:8]}", "cid": cid, "src": src, "ranges": ranges, "files": {"pkg/code.py": b64(src.encode())},
                         "argv": ["{proj}", "--output", "{out}", "--codemod-include", cid], "monitors": {"snap": False}})
    # group semgrep codemods? keep simple: individual runs
    pool = Pool(); res = pool.map(disc, timeout=300); pool.close()
    jobs = []
    for j, r in zip(disc, res):
        if r.get("status") != "ok" or r["runs"][0]["rc"] != 0: continue
        run = r["runs"][0]
        t = run["tree"].get("pkg/code.py")
        if not t or not t.startswith("F:"): continue
        after = unb(t[2:]).decode("utf-8", "replace")
        if after == j["src"]: continue
        sites, n_outside = S.single_line_replacements(j["src"], after, j["ranges"])
        if any(x is None for x in sites): SKIPPED["edit-not-confined-to-one-line"] += 1; continue   # insertions, removals, 1->n replacements: outside the quantifier
        hdr = [S.header_range(j["src"], ln) for ln in sites]
        L_ = j["src"].splitlines()
        def one_line_site(h, ln):
            if h is None: return False
            if h[0] == h[1]: return True
            # the construct alone on the middle line of `x = (` / `)`: still a single-line candidate site
            return h[1] - h[0] == 2 and ln == h[0] + 1 and L_[h[0] - 1].rstrip().endswith("(") and L_[h[1] - 1].strip() == ")"
        if not all(one_line_site(h, ln) for h, ln in zip(hdr, sites)): SKIPPED["multi-line-construct"] += 1; continue   # labelled, unjudged class (the quantifier speaks of single-line sites)
        outside = [1] * n_outside
        # single-line in-place sites only (imports added elsewhere are fine)
        report_lines = sorted({c["lineNumber"] for rr in run["report"]["results"] for cs in rr["changeset"] for c in cs["changes"]})
        base = {"cid": j["cid"], "src": j["src"], "sites": sites, "ranges": j["ranges"], "disc_report_lines": report_lines, "n_out_before": len(outside)}
        subsets = [s for n in range(1, K + 1) for s in itertools.combinations(range(K), n)]
        spellings = ["pkg/code.py:{n}", "*.py:{n}", "**/code.py:{n}", "{abs}:{n}", "code.py:{n}"]
        picks = rnd.sample(subsets, 2 if tier == "quick" else (3 if corpus.is_semgrep_detected(j["cid"]) else len(subsets)))
        # diagnostic cases (judged like any other): the whole filter on/off in the plain glob spelling; a codemod that fails one of them
        # does not apply the line filter at all, and every violation of that codemod is keyed line-filter-not-applied/<codemod>
        for dname, mode, sub in (("exclude-all", "exclude", tuple(range(K))), ("include-all", "include", tuple(range(K))), ("include-first", "include", (0,))):
            pats = ["*.py:" + str(sites[i]) for i in sub]
            jobs.append(dict(base, id=f"{j['cid']}|diag:{dname}|{j['id']}", files={"pkg/code.py": b64(j["src"].encode())}, argv=["{proj}", "--output", "{out}", "--codemod-include", j["cid"], "--path-" + mode, ",".join(pats)],
                             mode=mode, sub=sub, spell="*.py:{n}", diag=dname, monitors={"snap": False}))
        # two runs in ONE process on the same project: the first excludes every site (and must leave the file alone), the second is an ordinary judged case;
        # nothing of the first run's line lists may survive into the second
        for mode, sub in ((("include", (0,)), ("exclude", (K - 1,))) if tier != "quick" else ((("include", (0,)), ("exclude", (K - 1,)))[len(jobs) % 2],)):
            first = ["{proj}", "--output", "{out}", "--codemod-include", j["cid"], "--path-exclude", ",".join("*.py:" + str(sites[i]) for i in range(K))]
            second = ["{proj}", "--output", "{out}", "--codemod-include", j["cid"], "--path-" + mode, ",".join("pkg/code.py:" + str(sites[i]) for i in sub)]
            jobs.append(dict(base, id=f"{j['cid']}|two-runs|{mode}|{j['id']}", files={"pkg/code.py": b64(j["src"].encode())}, argv=[], steps=[first, second], mode=mode, sub=sub, spell="pkg/code.py:{n}", two_runs=True, monitors={"snap": False}))
        for sub in picks:
            for mode in ("exclude", "include"):
                allowed = spellings[:4] if mode == "exclude" else spellings[:3]  # absolute spelling only for excludes
                sp = rnd.choice(allowed) if tier == "quick" else None
                for spell in ([sp] if sp else allowed):
                    pats = [spell.replace("{n}", str(sites[i])).replace("{abs}", "{proj}/pkg/code.py") for i in sub]
                    # decoy entries naming the line right AFTER a site that is not in the list (and the line before it): a pattern stands for its own line only
                    others = [i for i in range(K) if i not in sub]
                    if others and len(jobs) % 3 == 0:
                        o_ = others[len(jobs) % len(others)]
                        pats += [spell.replace("{n}", str(sites[o_] + 1)).replace("{abs}", "{proj}/pkg/code.py"), spell.replace("{n}", str(max(1, sites[o_] - 1))).replace("{abs}", "{proj}/pkg/code.py")]
                    argv = ["{proj}", "--output", "{out}", "--codemod-include", j["cid"], "--path-" + mode, ",".join(pats)]
                    # the target directory as the user types it: canonical absolute path, relative to the cwd, ".", through a symlink, with a trailing slash
                    targets = ("abs", "rel", "dot", "symlink", "trailing-slash", "dotdot")
                    for tgt in ([rnd.choice(targets)] if tier == "quick" else (rnd.sample(targets, 2) if spell != "{abs}:{n}" else ("abs",))):
                        if spell == "{abs}:{n}" and tgt not in ("abs", "trailing-slash"): tgt = "abs"   # an absolute pattern presumes the canonical path
                        # sibling files that sort before / after the addressed file (selected too): the line filter of code.py must not depend on what was processed before it
                        sib = ("none", "before", "after", "both")[len(jobs) % 4]
                        files_ = {"pkg/code.py": b64(j["src"].encode())}; argv_ = list(argv)
                        extra = [n_ for n_, on in (("pkg/aaa_first.py", sib in ("before", "both")), ("pkg/zzz_last.py", sib in ("after", "both"))) if on]
                        for n_ in extra: files_[n_] = b64(b"sibling_value = 1\nother_value = 2\n")
                        if extra and mode == "include": argv_[-1] = ",".join(([extra[0]] if len(jobs) % 8 < 4 else []) + [argv_[-1]] + ([extra[0]] if len(jobs) % 8 >= 4 else []) + extra[1:])
                        jobs.append(dict(base, id=f"{j['cid']}|{mode}|{sub}|{spell}|{tgt}|sib-{sib}", files=files_, argv=argv_, mode=mode, sub=sub, spell=spell, target=tgt, siblings=sib, monitors={"snap": False}))
        # one pattern list mixing spellings and a second file's entries, interleaved (a:2, other:1, a:6 ...): every entry counts, whatever its neighbours
        full = tuple(range(K))
        for mode in ("exclude", "include"):
            for q in range(2 if tier == "quick" else 5):
                sub = full if q < 2 else tuple(sorted(rnd.sample(range(K), 2)))
                # the patterns of one file come in the order the user wrote them: ascending (q = 0), else descending or rotated - the set of lines is what counts
                if q >= 1: sub = rnd.choice([sub[::-1]] + ([sub[1:] + sub[:1], sub[-1:] + sub[:-1]] if len(sub) > 2 else []))
                sp = [rnd.choice(spellings[:3]) for _ in sub]
                if len(sub) >= 3: sp[2] = sp[0]                               # the same path spelling comes back after a different one
                pats = [s_.replace("{n}", str(sites[i])) for s_, i in zip(sp, sub)]
                pats.insert(1, "pkg/other.py:1")
                if rnd.random() < 0.5: pats.insert(rnd.randint(0, len(pats)), "pkg/other.py:2")
                argv = ["{proj}", "--output", "{out}", "--codemod-include", j["cid"], "--path-" + mode, ",".join(pats)]
                jobs.append(dict(base, id=f"{j['cid']}|{mode}|{sub}|interleaved{q}|{j['id']}", files={"pkg/code.py": b64(j["src"].encode()), "pkg/other.py": b64(b"y = 1\nz = 2\n")}, argv=argv, mode=mode, sub=sub, spell="pkg/code.py:{n}", interleaved=True, target="abs", monitors={"snap": False}))
    return jobs

def site_text(text, i):
    a = text.find(S.BEGIN(i)); b = text.find(S.END(i))
    return text[a:b] if a >= 0 and b >= 0 else None

_raw = []   # provisional violations, keyed in finalize() once the diagnostic cases of every codemod are known

def judge(job, res):
    v = []; st = collections.Counter(); nt = []
    run = res["runs"][-1]            # two-run jobs: the second run is the judged one (the first excluded every site)
    if run["rc"] != 0 or run["exc"]:
        st["run_failed"] += 1; return v, st, nt
    t = run["tree"].get("pkg/code.py"); after = unb(t[2:]).decode("utf-8", "replace")
    if job.get("two_runs"):
        st["two_run_cases"] += 1
        t0_ = res["runs"][0]["tree"].get("pkg/code.py")
        if t0_ is None or unb(t0_[2:]).decode("utf-8", "replace") != job["src"]: st["two_run_first_run_not_neutral"] += 1; return v, st, nt    # the first run did rewrite something (a diagnostic case reports that): the second is not judgeable
    rewritten = S.sites_changed(job["src"], after, K)
    permitted = set(range(K)) - set(job["sub"]) if job["mode"] == "exclude" else set(job["sub"])
    nt.append(job["id"]); st["fired:" + job["cid"]] += 1
    handed = [e for e in run["trace"] if e["k"] == "pipe"]
    if handed: st["line_filter_reached_transformer" if (handed[0]["line_include"] or handed[0]["line_exclude"]) else "line_filter_empty_at_transformer"] += 1
    cm = job["cid"].split("/")[1]; spell_cls = {"pkg/code.py:{n}": "relative", "*.py:{n}": "glob", "**/code.py:{n}": "glob", "{abs}:{n}": "absolute"}[job["spell"]]
    w = {"codemod": job["cid"], "mode": job["mode"], "lines": [job["sites"][i] for i in job["sub"]], "spelling": job["spell"], "rewritten_sites": sorted(rewritten), "permitted": sorted(permitted), "src": job["src"], "after": after,
         "line_include_at_transformer": handed[0]["line_include"] if handed else None, "line_exclude_at_transformer": handed[0]["line_exclude"] if handed else None}
    rec = lambda kind, what: _raw.append({"kind": kind, "cm": cm, "spell": spell_cls, "mode": job["mode"], "diag": job.get("diag"), "what": what, "w": w, "job": strip_job(job),
                                          "filter_lost": bool(handed) and not (handed[0]["line_include"] or handed[0]["line_exclude"])})
    if rewritten - permitted: rec("not-permitted-rewritten", f"{cm}: sites {sorted(rewritten - permitted)} rewritten although their lines are not permitted (--path-{job['mode']} {job['spell']})")
    if permitted - rewritten: rec("permitted-not-fixed", f"{cm}: sites {sorted(permitted - rewritten)} permitted but untouched (--path-{job['mode']} {job['spell']})")
    lines = sorted({c["lineNumber"] for rr in run["report"]["results"] for cs in rr["changeset"] for c in cs["changes"]})
    exp_lines = sorted(job["sites"][i] for i in rewritten)
    if rewritten and not (rewritten - permitted) and not set(exp_lines) <= set(lines):
        rec("change-line-mismatch", f"{cm}: change entries name lines {lines}, the edited lines are {exp_lines}")
    return v, st, nt

def finalize(stats, counters):
    diag_fail = {r["cm"] for r in _raw if r["diag"] and r["kind"] != "change-line-mismatch"}
    out = []
    for r in _raw:
        if r["kind"] == "change-line-mismatch": key = f"change-line-mismatch/{r['cm']}"
        elif r["cm"] in diag_fail: key = f"line-filter-not-applied/{r['cm']}"
        elif r["filter_lost"]: key = f"line-pattern-not-matched/{r['spell']}-spelling" + ("" if r["job"].get("target", "abs") == "abs" else "/target-" + r["job"]["target"])          # the pattern never reached the transformer
        elif r["job"].get("interleaved"): key = f"{r['kind']}/interleaved-pattern-list"
        elif r["job"].get("two_runs"): key = f"{r['kind']}/second-run-in-one-process"
        else: key = f"{r['kind']}/{r['cm']}/{r['spell']}-spelling" + ("" if r["job"].get("target", "abs") == "abs" else "/target-" + r["job"]["target"])
        out.append(Violation("C13", key, r["what"], r["w"], jobs=[r["job"]]))
    extra = {"codemods_failing_a_diagnostic_case": sorted(diag_fail), "seeds_left_unjudged": dict(SKIPPED)}
    return out, extra, None

def main():
    return run_check("C13", "exploration", plan, judge, "codemods whose triggering seed is edited on exactly one line: seed body replicated 3x between sentinels; diagnostic cases (exclude all / include all / include first) + subsets of site lines excluded/included in relative, glob and absolute spellings; H-pipe records the line filter handed to the transformer; non-trivial = every pattern run on a triggering program",
                     50, deciding_counters=("pipe_libcst",), timeout=300, module=__name__, finalize=finalize)

if __name__ == "__main__":
    sys.exit(main())
