"""C03: reported diff == change on disk (per codemod step, composed), unchanged files byte-identical."""
import base64, collections, hashlib, json, os, random, sys
from vf import corpus, gen, oracles as O
from vf.checks import grid
from vf.runner import run_check, Violation
b64 = lambda b: base64.b64encode(b).decode(); unb = base64.b64decode

MANIFESTS = {
    "req_lf": {"requirements.txt": b"requests\nflask==2.0  # c\n"},
    "req_nonl": {"requirements.txt": b"requests"},
    "req_crlf": {"requirements.txt": b"requests\r\nflask\r\n"},
    "pyproject": {"pyproject.toml": b'[project]\nname="x"\ndependencies = [\n  "requests",\n]\n\n[tool.black]\nline-length = 88\n'},
    "pyproject_inline": {"pyproject.toml": b'[project]\nname="x"\ndependencies = ["requests"]\n'},
    "poetry": {"pyproject.toml": b'[tool.poetry]\nname="x"\n\n[tool.poetry.dependencies]\npython = "^3.10"\nrequests = "^2.0"\n'},
    "setup_py": {"setup.py": b'from setuptools import setup\nsetup(\n    name="x",\n    install_requires=[\n        "requests",\n    ],\n)\n'},
    "setup_cfg": {"setup.cfg": b"[metadata]\nname = x\n\n[options]\ninstall_requires =\n    requests\n    flask\n"},
    "setup_cfg_crlf": {"setup.cfg": b"[options]\r\ninstall_requires =\r\n    requests\r\n"},
    # manifests that are not UTF-8 (PowerShell's `pip freeze > requirements.txt` writes UTF-16 with a BOM)
    "req_utf16": {"requirements.txt": "requests\nflask==2.0\n".encode("utf-16")},
    "req_utf16_crlf": {"requirements.txt": "requests\r\nflask==2.0\r\n".encode("utf-16")},
    "req_latin1": {"requirements.txt": "requests  # d\xe9pendance\nflask\n".encode("latin-1")},
    "req_utf8_bom": {"requirements.txt": b"\xef\xbb\xbfrequests\nflask\n"},
    "setup_py_crlf": {"setup.py": b'from setuptools import setup\r\nsetup(\r\n    name="x",\r\n    install_requires=[\r\n        "requests",\r\n    ],\r\n)\r\n'},
    "pyproject_crlf": {"pyproject.toml": b'[project]\r\nname="x"\r\ndependencies = [\r\n  "requests",\r\n]\r\n'},
    "two_manifests": {"requirements.txt": b"requests\n", "setup.cfg": b"[options]\ninstall_requires =\n    requests\n"},
    # several manifests of which the first in discovery order (pyproject.toml, setup.py, requirements.txt, setup.cfg) cannot take the dependency: the writer falls through to a later one
    "dynamic_pyproject+req": {"pyproject.toml": b'[project]\nname = "x"\ndynamic = ["dependencies"]\n\n[tool.setuptools.dynamic]\ndependencies = {file = ["requirements.txt"]}\n', "requirements.txt": b"requests\n"},
    "setup_py_computed+req": {"setup.py": b'from setuptools import setup\nREQS = open("requirements.txt").read().split()\nsetup(name="x", install_requires=REQS)\n', "requirements.txt": b"requests\n"},
    "tool_only_pyproject+setup_cfg": {"pyproject.toml": b'[build-system]\nrequires = ["setuptools"]\n\n[tool.black]\nline-length = 88\n', "setup.cfg": b"[options]\ninstall_requires =\n    requests\n"},
    "four_manifests": {"pyproject.toml": b'[build-system]\nrequires = ["setuptools"]\n', "setup.py": b'from setuptools import setup\nsetup()\n', "requirements.txt": b"requests\n", "setup.cfg": b"[options]\ninstall_requires =\n    requests\n"},
    "nested_requirements": {"services/api/requirements.txt": b"requests\n"},
    "nested_pyproject+root_cfg": {"services/api/pyproject.toml": b'[project]\nname="x"\ndependencies = [\n  "requests",\n]\n', "setup.cfg": b"[metadata]\nname = x\n"},
}
# a manifest that is also an ordinary source file other codemods rewrite
SETUP_PY_WITH_TRIGGERS = b"""from setuptools import setup

def extras(acc=[]):
    acc.append("x")
    return acc

KINDS = set(["a", "b"])

setup(
    name="x",
    install_requires=[
        "requests",
    ],
)
"""
DEP_CODEMODS = {"pixee:python/use-defusedxml": "import xml.sax\nxml.sax.parse('f')\n", "pixee:python/harden-pickle-load": "import pickle\npickle.load(open('f','rb'))\n",
                "pixee:python/flask-enable-csrf-protection": "from flask import Flask\napp = Flask(__name__)\n"}

def plan(tier, seed):
    rnd = random.Random(f"C03:{seed}")
    jobs = [j for j in grid.plan(tier, seed)]
    for j in jobs: j["repeat"] = 1; j["monitors"] = {"snap": True}
    if tier == "quick": jobs = [j for k, j in enumerate(jobs) if len(j["files"]) > 1 or k % 3 == seed % 3]
    # manifests x dependency-adding codemods
    for mk, mf in MANIFESTS.items():
        for cid, src in DEP_CODEMODS.items():
            files = {"app.py": b64(src.encode())}; files.update({k: b64(v) for k, v in mf.items()})
            jobs.append({"id": f"manifest:{mk}:{cid}", "cid": cid, "labels": {"app.py": ("module", "plain", "lf"), **{k: ("manifest", mk, "") for k in mf}}, "files": files,
                         "argv": ["{proj}", "--output", "{out}", "--codemod-include", cid], "monitors": {"snap": True}})
    # heterogeneous projects processed by several workers at once: BOM / CRLF / LF / no-final-newline files of very different sizes, one codemod,
    # --max-workers 4, seeded per-file delays and (H-fp) LINE-event yield injection, so that work items interleave inside the pipeline
    mixed_cm = [("pixee:python/remove-unnecessary-f-str", "print(f'plain {0}')\n"), ("pixee:python/use-set-literal", "s_{0} = set([{0}, 2])\n"), ("pixee:python/fix-assert-tuple", "assert (1 == {0}, 'msg')\n")]
    for q in range(4 if tier == "quick" else 40):
        cid, tmpl = mixed_cm[q % len(mixed_cm)]; files = {}; labels = {}
        for i in range(12):
            text = tmpl.format(i) + "".join(f"pad_{i}_{k} = {k}\n" for k in range(rnd.choice((0, 0, 30, 300)))) + tmpl.format(i + 100)
            lay = ("bom", "lf", "crlf", "nonl", "lf", "bom")[(i + q) % 6]
            name = f"d{i % 3}/mix_{i:02d}.py"; files[name] = b64(gen.layout(text, lay)); labels[os.path.basename(name)] = ("mixed-project", "plain", lay)
        jobs.append({"id": f"mixed-workers:{q}", "cid": cid, "labels": labels, "files": files, "argv": ["{proj}", "--output", "{out}", "--codemod-include", cid, "--max-workers", "4"],
                     "monitors": {"snap": True, "delays": {"seed": seed * 1000 + q, "max_ms": 3}, "yield": {"seed": seed * 1000 + q, "p": 0.02}}})
    # the manifest is also a source file: dependency writers and libcst codemods touch the same setup.py in one run, in every order
    import itertools as _it
    trio = ["pixee:python/use-defusedxml", "pixee:python/fix-mutable-params", "pixee:python/use-set-literal"]
    orders = list(_it.permutations(trio)) + [("pixee:python/harden-pickle-load", "pixee:python/fix-mutable-params"), ("pixee:python/fix-mutable-params", "pixee:python/harden-pickle-load", "pixee:python/use-set-literal")]
    for q, ks in enumerate(orders if tier != "quick" else orders[:4] + orders[-2:]):
        files = {"setup.py": b64(SETUP_PY_WITH_TRIGGERS), "app.py": b64(b"import xml.sax\nimport pickle\nxml.sax.parse('f')\npickle.load(open('f', 'rb'))\n")}
        jobs.append({"id": f"manifest-is-source:{q}", "cid": ",".join(ks), "labels": {"setup.py": ("manifest-is-source", "setup_py", ""), "app.py": ("module", "plain", "lf")}, "files": files,
                     "argv": ["{proj}", "--output", "{out}", "--codemod-include", ",".join(ks)], "monitors": {"snap": True}})
    # sequences on one shared file + a multi-file project
    recs = [r for r in corpus.load() if r["codemod"].startswith("pixee:") and r["input"] != r["expected"] and not r["files"] and not corpus.is_semgrep_detected(r["codemod"])]
    by = collections.defaultdict(list)
    for r in recs: by[r["codemod"]].append(r)
    cids = sorted(by)
    nseq = 12 if tier == "quick" else 150
    for q in range(nseq):
        ks = rnd.sample(cids, rnd.choice((2, 3, 4)))
        parts = []; heads = []
        for k in ks:
            h, b = gen.split_head(rnd.choice(by[k])["input"]); heads.append(h); parts.append(b)
        src = "".join(heads) + "\n".join(parts)
        try: compile(src, "<s>", "exec")
        except SyntaxError: continue
        lay = rnd.choice(("lf", "crlf", "nonl"))
        jobs.append({"id": f"seq:{q}:{'+'.join(k.split('/')[1] for k in ks)}", "cid": ",".join(ks), "labels": {"shared.py": ("sequence", "plain", lay)},
                     "files": {"shared.py": b64(gen.layout(src, lay)), "requirements.txt": b64(b"requests\n")},
                     "argv": ["{proj}", "--output", "{out}", "--codemod-include", ",".join(ks)], "monitors": {"snap": True}})
    # several dependency-adding codemods in one run (some need the SAME package, some find theirs already declared): every manifest diff belongs to the codemod that wrote it, once
    DEPSRC = {"pixee:python/use-defusedxml": b"import xml.sax\nxml.sax.parse('f')\n", "pixee:python/harden-pickle-load": b"import pickle\npickle.load(open('f','rb'))\n",
              "pixee:python/flask-enable-csrf-protection": b"from flask import Flask\napp = Flask(__name__)\n",
              "pixee:python/url-sandbox": b"import requests\nfrom flask import request\ndef v():\n    requests.get(request.args['u'])\n", "pixee:python/sandbox-process-creation": b"import subprocess\nfrom flask import request\ndef w():\n    subprocess.run(request.args['c'])\n"}
    seqs = [("pixee:python/url-sandbox", "pixee:python/sandbox-process-creation"), ("pixee:python/sandbox-process-creation", "pixee:python/url-sandbox", "pixee:python/use-defusedxml"),
            ("pixee:python/use-defusedxml", "pixee:python/harden-pickle-load", "pixee:python/flask-enable-csrf-protection")]
    for q, ks in enumerate(seqs if tier == "quick" else seqs + [tuple(reversed(x)) for x in seqs]):
        for mk in (("req_lf", "pyproject", "setup_cfg") if tier == "quick" else sorted(MANIFESTS)):
            files = {f"m_{k.split('/')[1].replace('-', '_')}.py": b64(DEPSRC[k]) for k in ks}; files.update({k: b64(v) for k, v in MANIFESTS[mk].items()})
            jobs.append({"id": f"dep-seq:{q}:{mk}", "cid": ",".join(ks), "labels": {**{n: ("module", "plain", "lf") for n in files if n.endswith(".py") and n.startswith("m_")}, **{k: ("manifest", mk, "") for k in MANIFESTS[mk]}}, "files": files,
                         "argv": ["{proj}", "--output", "{out}", "--codemod-include", ",".join(ks)], "monitors": {"snap": True}})
    return jobs

def blob(s):
    return unb(s[2:]) if s is not None and s.startswith("F:") else None

def classify(path, before, after, labels, detail):
    lab = labels.get(os.path.basename(path)) or labels.get(path) or ()
    if before is not None and after is not None:
        if before.startswith(b"\xef\xbb\xbf") and not after.startswith(b"\xef\xbb\xbf"): return "bom-dropped"
        if b"\x00" in before: return "nul-normalised"
        if lab and lab[0] == "manifest":
            if b"\r\n" in before and b"\r\n" not in after: return "manifest-crlf"
            if path.endswith("pyproject.toml") and detail.startswith("PHANTOM-ONLY"): return "pyproject-phantom-context"
        if b"\r" in before.replace(b"\r\n", b""): return "cr-only"
    return "diff-mismatch/" + (lab[0] if lab else "?")

def judge(job, res):
    v = []; st = collections.Counter(); nt = []
    run = res["runs"][0]
    if run["rc"] != 0 or run["exc"]:
        st["run_failed"] += 1; return v, st, nt
    snaps = {}
    order = []
    for e in run["trace"]:
        if e["k"] == "cm_begin": snaps.setdefault(e["cm"], {})["pre"] = e["snap"]; order.append(e["cm"])
        elif e["k"] == "cm_end": snaps.setdefault(e["cm"], {})["post"] = e["snap"]
    results = {r["codemod"]: r for r in (run["report"] or {}).get("results", [])}
    for cm in order:
        pre, post = snaps[cm].get("pre"), snaps[cm].get("post")
        if pre is None or post is None: st["no_snapshot"] += 1; continue
        css = collections.defaultdict(list)
        for cs in results.get(cm, {}).get("changeset", []): css[cs["path"]].append(cs)
        for path in sorted(set(pre) | set(post)):
            b, a = blob(pre.get(path)), blob(post.get(path))
            changed = pre.get(path) != post.get(path)
            if not changed and not css.get(path): continue
            nt.append((cm, path, job["id"])); st["fired:" + cm] += 1
            if changed and not css.get(path):
                v.append(Violation("C03", "changed-without-changeset/" + cm.split("/")[1], f"{path} changed during {cm} but no changeset names it", {"codemod": cm, "path": path, "job": job["id"]})); continue
            if not changed:
                v.append(Violation("C03", "changeset-without-change/" + cm.split("/")[1], f"changeset for {path} but file unchanged", {"codemod": cm, "path": path, "job": job["id"]})); continue
            if len(css[path]) != 1:
                v.append(Violation("C03", "multiple-changesets/" + cm.split("/")[1], f"{len(css[path])} changesets for {path}", {"codemod": cm, "path": path})); continue
            try:
                bt, at = b.decode("utf-8"), a.decode("utf-8")
            except AttributeError:
                st["undecodable"] += 1; continue
            except UnicodeDecodeError:
                # not UTF-8: read both sides the way Python reads the ORIGINAL file (BOM / PEP 263 cookie); a rewrite must stay in that encoding
                import io, tokenize
                try:
                    enc, _ = tokenize.detect_encoding(io.BytesIO(b).readline); bt = b.decode(enc)
                except Exception: st["undecodable"] += 1; continue
                try: at = a.decode(enc)
                except UnicodeDecodeError:
                    v.append(Violation("C03", "output-not-in-declared-encoding", f"{path} declares {enc}; after {cm} its bytes no longer decode as {enc}", {"codemod": cm, "path": path, "job": job["id"], "encoding": enc})); continue
            detail = ""
            try:
                got, _ = O.apply_unified(bt, css[path][0]["diff"]); ok = O.same_mod_final_newline(got, at)
                if not ok: detail = "patched text differs from disk"
            except O.PatchError as ex:
                ok = False; detail = str(ex)
                if path.endswith("pyproject.toml") and "beyond EOF" in detail:
                    # tolerate only the phantom trailing context line; anything else about the diff must still be right
                    try:
                        got, notes = O.apply_unified(bt, css[path][0]["diff"], strict=False)
                        detail = "PHANTOM-ONLY " + detail if O.same_mod_final_newline(got, at) else "patched text differs from disk (beyond the phantom context line)"
                    except O.PatchError as ex2: detail = str(ex2)
            if ok: st["patch_ok"] += 1
            else:
                key = classify(path, b, a, job["labels"], detail)
                v.append(Violation("C03", key, f"diff of {cm} for {path} does not reproduce the file on disk: {detail[:120]}", {"codemod": cm, "path": path, "job": job["id"], "before": bt, "after": at, "diff": css[path][0]["diff"]}))
    return v, st, nt

def main():
    return run_check("C03", "exploration", plan, judge, "grid + manifests x dependency codemods + random codemod sequences on a shared file; per codemod step: patch(diff, S_pre)==S_post, unchanged files identical; non-trivial = file changed or changeset reported", 50, deciding_counters=("_apply", "log_changes"), module=__name__)

if __name__ == "__main__":
    sys.exit(main())
