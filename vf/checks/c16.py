"""C16: hardening codemods change only tokens of their documented vocabulary; other arguments survive in order."""
import ast, base64, collections, hashlib, json, os, random, re, sys
from vf import corpus, gen, oracles as O
from vf.runner import run_check, Violation
b64 = lambda b: base64.b64encode(b).decode(); unb = base64.b64decode

# vocabulary: regexes over token values per kind; anything else must be preserved with multiplicity
def V(*pats): return re.compile("^(?:" + "|".join(pats) + ")$")
ANYIMPORT = r".*"
VOCAB = {
 "requests-verify": {"const": V("False", "True")},
 "jwt-decode-verify": {"const": V("False", "True")},
 "subprocess-shell-false": {"const": V("False", "True")},
 "add-requests-timeouts": {"kw": V("timeout"), "const": V("60")},
 "django-json-response-type": {"kw": V("content_type"), "const": V("'application/json'")},
 "enable-jinja2-autoescape": {"kw": V("autoescape"), "const": V("False", "True")},
 "fix-math-isclose": {"kw": V("abs_tol"), "const": V("0", "0\\.0", "1e-09")},
 "harden-ruamel": {"const": V("'unsafe'", "'base'", "'safe'")},
 "harden-pyyaml": {"attr": V("UnsafeLoader", "Loader", "BaseLoader", "FullLoader", "SafeLoader"), "name": V("UnsafeLoader", "Loader", "BaseLoader", "FullLoader", "SafeLoader", "yaml", "@alias"), "kw": V("Loader"), "import": V(ANYIMPORT), "from": V("yaml")},
 "safe-lxml-parser-defaults": {"kw": V("resolve_entities", "no_network", "dtd_validation"), "const": V("False", "True")},
 "safe-lxml-parsing": {"kw": V("parser", "resolve_entities"), "const": V("None", "False"), "attr": V("XMLParser", "etree"), "name": V("lxml"), "import": V("lxml\\.etree")},
 "secure-flask-cookie": {"kw": V("secure", "httponly", "samesite"), "const": V("True", "False", "None", "'Lax'", "'Strict'", "'None'")},
 "secure-random": {"name": V("random", "secrets", "@alias", "@fromname"), "attr": V("SystemRandom", "@fromname"), "import": V(ANYIMPORT), "from": V("random")},
 "sandbox-process-creation": {"name": V("safe_command"), "attr": V("run"), "import": V("safe_command"), "from": V("security")},
 "url-sandbox": {"name": V("requests", "safe_requests", "get", "@alias", "@fromname"), "attr": V("get"), "import": V(ANYIMPORT), "from": V("security", "requests")},
 "use-defusedxml": {"name": V(".*"), "attr": V("ElementTree", "sax", "minidom", "pulldom", "parse", "parseString", "fromstring", "iterparse", "XMLParser", "make_parser"), "import": V(ANYIMPORT), "from": V("xml.*", "defusedxml.*")},
 "harden-pickle-load": {"name": V("pickle", "fickling", "load", "@alias", "@fromname"), "attr": V("load"), "import": V(ANYIMPORT), "from": V("pickle")},
 "https-connection": {"name": V("urllib3", "@alias", "@fromname"), "attr": V("HTTPConnectionPool", "HTTPSConnectionPool"), "kw": V("_proxy_config"), "import": V(ANYIMPORT), "from": V("urllib3.*")},
 "upgrade-sslcontext-tls": {"name": V("ssl", "@alias", "@fromname"), "attr": V("PROTOCOL_\\w+"), "kw": V("protocol"), "import": V(ANYIMPORT), "from": V("ssl")},
 "upgrade-sslcontext-minimum-version": {"name": V("ssl", "TLSVersion", "@alias", "@fromname"), "attr": V("SSLv2", "SSLv3", "TLSv1", "TLSv1_1", "TLSv1_2", "MINIMUM_SUPPORTED", "TLSVersion"), "import": V(ANYIMPORT), "from": V("ssl")},
 "limit-readline": {"const": V("5000000")},
 # the callee keeps its binding (`dt.utcnow()` -> `dt.now(tz=...)`): no name may disappear, only the deprecated method names
 "timezone-aware-datetime": {"removed": {"attr": V("utcnow", "utcfromtimestamp")}, "name": V("datetime", "timezone", "@alias", "@fromname"), "attr": V("utcnow", "utcfromtimestamp", "now", "fromtimestamp", "timezone", "utc", "datetime"), "kw": V("tz"), "import": V(ANYIMPORT), "from": V("datetime")},
}
def imported_names(src):
    al = set(); fr = set()
    for n in ast.walk(ast.parse(src)):
        if isinstance(n, ast.Import):
            for a in n.names: al.add(a.asname or a.name.split(".")[0])
        elif isinstance(n, ast.ImportFrom):
            for a in n.names: fr.add(a.asname or a.name); 
    return al, fr

SHAPES = {  # label -> text appended to the argument list of EVERY call of the seed (so the call the codemod rewrites has it too)
    "extra-keyword": ["vf_extra=VF_EXTRA_VALUE"],
    "star-args": ["*vf_star_args"],
    "double-star": ["**vf_star_kw"],
    "star-and-keyword-and-double-star": ["*vf_star_args", "vf_extra=VF_EXTRA_VALUE", "**vf_star_kw"],
    "nested-call-argument": ["vf_nested=vf_inner_fn(vf_inner_arg, 7171)"],
    "keyword-first": None,   # handled specially: a keyword argument is inserted in FRONT of the existing keywords
    # the same with a trailing comma after the last argument (one-line magic trailing comma; the exploded layouts below add the multi-line form)
    "star-args+trailing-comma": ["*vf_star_args", ","],
    "double-star+trailing-comma": ["**vf_star_kw", ","],
    "extra-keyword+trailing-comma": ["vf_extra=VF_EXTRA_VALUE", ","],
}
EXPLODED_OF = ("star-args", "double-star", "star-and-keyword-and-double-star", "extra-keyword")   # these shapes are also produced in black's exploded layout
def vocab_keywords(cm):
    """the keyword names the codemod sets, taken from its documented vocabulary"""
    rx = VOCAB.get(cm, {}).get("kw")
    return [k for k in rx.pattern[4:-2].split("|") if re.fullmatch(r"[A-Za-z_]\w*", k)] if rx else []

def shapes(src, cm=None):
    """call-shape variants of a seed: extra arguments appended to (or, for keyword-first, inserted into) every call"""
    out = [("orig", src)]
    # the codemod's own keywords already present, with an unsafe value, in ascending / descending / partial order ("existing unsafe value")
    kws = vocab_keywords(cm) if cm else []
    local_shapes = dict(SHAPES)
    for label, order in (("preset-keywords-ascending", kws), ("preset-keywords-descending", kws[::-1]), ("preset-first-two", kws[:2]), ("preset-last-two-reversed", kws[-2:][::-1])) if len(kws) >= 2 else ():
        local_shapes[label] = [f"{k}=False" for k in order]
    # ... and with the other values of the codemod's documented vocabulary (a value the codemod accepts as it is next to one it must change)
    rxc = VOCAB.get(cm, {}).get("const") if cm else None
    consts = [c for c in (rxc.pattern[4:-2].split("|") if rxc else []) if c not in ("True", "False")]
    if len(kws) >= 2:
        for c in consts[:4]:
            c_ = c.replace("\\", "")
            if re.fullmatch(r"'[\w ]*'|None|\d+", c_): local_shapes[f"preset-first-unsafe+last-{c_.strip(chr(39))}"] = [f"{kws[0]}=False", f"{kws[-1]}={c_}"]
    try: tree = ast.parse(src)
    except SyntaxError: return out
    # an inner call of some other API that happens to carry the same constant-valued keywords as the seed's own calls (so also the keyword the codemod sets, with the value it replaces):
    # the documented edit concerns the hardened call's own arguments, an argument's inner call is "every other expression"
    own = [(k.arg, ast.get_source_segment(src, k.value)) for n in ast.walk(tree) if isinstance(n, ast.Call) for k in n.keywords if k.arg and not k.arg.startswith("vf_") and isinstance(k.value, ast.Constant)]
    if own: local_shapes["nested-call-same-keyword"] = ["vf_nested=vf_inner_fn(vf_inner_arg, " + ", ".join(f"{a}={v}" for a, v in dict(own).items()) + ")"]
    lines = src.splitlines(keepends=True)
    starts = [0]
    for l in lines: starts.append(starts[-1] + len(l))
    def off(line, col):  # ast columns are UTF-8 byte offsets
        return starts[line - 1] + len(lines[line - 1].encode("utf-8")[:col].decode("utf-8", "ignore"))
    calls = [n for n in ast.walk(tree) if isinstance(n, ast.Call) and not (isinstance(n.func, ast.Name) and n.func.id.startswith("vf_"))]
    if not calls: return out
    # a dict-literal argument that also unpacks a mapping: f(options={"k": v, **vf_star_dict}) - the entry must survive whatever happens to the keys next to it
    dict_edits = []
    for n in calls:
        for d in [a for a in list(n.args) + [k.value for k in n.keywords] if isinstance(a, ast.Dict) and a.keys and all(k is not None for k in a.keys)]:
            close = off(d.end_lineno, d.end_col_offset) - 1
            if src[close] != "}": continue
            j = close - 1
            while j >= 0 and src[j] in " \t\r\n": j -= 1
            dict_edits.append((j + 1, (" " if src[j] == "," else ", ") + "**vf_star_dict"))
    if dict_edits:
        new = src
        for pos, ins in sorted(dict_edits, reverse=True): new = new[:pos] + ins + new[pos:]
        try: compile(new, "<shape>", "exec"); out.append(("dict-argument-unpacking", new))
        except SyntaxError: pass
    for label, extra in local_shapes.items():
        edits = []
        for n in calls:
            close = off(n.end_lineno, n.end_col_offset) - 1
            if src[close] != ")": edits = None; break
            if label == "keyword-first":
                if not n.keywords or any(k.arg is None for k in n.keywords): continue
                k0 = min(n.keywords, key=lambda k: (k.value.lineno, k.value.col_offset))
                seg = ast.get_source_segment(src, k0.value)
                pos = off(k0.value.lineno, k0.value.col_offset) - len(k0.arg) - 1
                if src[pos:pos + len(k0.arg) + 1] != k0.arg + "=": continue
                edits.append((pos, "vf_first_kw=VF_FIRST_VALUE, "))
                continue
            if any(k.arg is None for k in n.keywords) and any(e.startswith("*") and not e.startswith("**") for e in extra): continue   # nothing positional may follow **
            if label.startswith("preset-") and ({k.arg for k in n.keywords} & {e.split("=")[0] for e in extra} or not (isinstance(n.func, ast.Attribute) or isinstance(n.func, ast.Name))): continue
            j = close - 1
            while j >= 0 and src[j] in " \t\r\n": j -= 1
            trailing = "," if extra[-1] == "," else ""
            text = ", ".join(e for e in extra if e != ",") + trailing
            if src[j] == "(": ins = text
            elif src[j] == ",": ins = " " + text + ("" if trailing else ",")
            else: ins = ", " + text
            edits.append((j + 1, ins))
        if not edits: continue
        new = src
        for pos, ins in sorted(edits, reverse=True): new = new[:pos] + ins + new[pos:]
        try: compile(new, "<shape>", "exec")
        except SyntaxError: continue
        out.append((label, new))
        if label in EXPLODED_OF:
            ex = gen.exploded_calls(new)
            if ex is not None: out.append((label + "+exploded", ex))
    return out

def plan(tier, seed):
    rnd = random.Random(f"C16:{seed}")
    recs = [r for r in corpus.load() if r["codemod"].startswith("pixee:") and r["codemod"].split("/")[1] in VOCAB and r["input"] != r["expected"] and not r["files"]]
    by = collections.defaultdict(dict)
    ctxs = ("module", "def") if tier == "quick" else ("module", "def", "method", "nested")
    nshape = collections.Counter(); forms_seen = collections.defaultdict(set)
    def call_forms(src):
        """how the calls of a seed pass their arguments: (number of positional arguments, keyword names) per call - seeds that differ here exercise different branches of a rewrite"""
        try: t = ast.parse(src)
        except SyntaxError: return frozenset()
        return frozenset((len(n.args), tuple(sorted(k.arg or "**" for k in n.keywords))) for n in ast.walk(t) if isinstance(n, ast.Call))
    for r in recs:
        nshape[r["codemod"]] += 1
        # quick tier: the call shapes go onto the first three seeds of a codemod and onto every seed whose calls pass their arguments in a form not seen before (at most eight per codemod)
        fm = call_forms(r["input"]); new_form = fm not in forms_seen[r["codemod"]] and len(forms_seen[r["codemod"]]) < 8; forms_seen[r["codemod"]].add(fm)
        with_shapes = tier != "quick" or nshape[r["codemod"]] <= 3 or new_form
        for c in ctxs:
            try: s = gen.ctx(r["input"], c)
            except Exception: s = None
            if s is None: continue
            # extra untouched material that must survive: a marker call with unique identifiers and literals
            mixed = gen.mixed_imports(s) if c == "module" else None
            for shape, s1 in shapes(s, r["codemod"].split("/")[1]) + ([("mixed-import-bindings", mixed)] if mixed else []):
                if shape not in ("orig", "mixed-import-bindings") and (not with_shapes or c != ("module" if tier == "quick" else c) or c not in ("module", "def")): continue
                s2 = s1 + ("\n" if not s1.endswith("\n") else "") + "vf_marker_fn(vf_arg_one, 'vf literal', 4242, vf_kw=vf_arg_two)\n"
                by[r["codemod"]].setdefault(hashlib.sha1(s2.encode()).hexdigest()[:12], (c + "/" + shape, s2))
    jobs = []
    for cid, d in sorted(by.items()):
        items = sorted(d.items())
        if corpus.is_semgrep_detected(cid):
            for i in range(0, len(items), 50):
                ch = items[i:i + 50]
                jobs.append({"id": f"{cid}#{i}", "cid": cid, "srcs": {f"v_{h}.py": s for h, (c, s) in ch}, "labels": {f"v_{h}.py": c for h, (c, s) in ch}, "files": {f"v_{h}.py": b64(s.encode()) for h, (c, s) in ch}, "argv": ["{proj}", "--output", "{out}", "--codemod-include", cid], "monitors": {"snap": False}})
        else:
            for h, (c, s) in items:
                jobs.append({"id": f"{cid}#{h}", "cid": cid, "srcs": {"code.py": s}, "labels": {"code.py": c}, "files": {"code.py": b64(s.encode())}, "argv": ["{proj}", "--output", "{out}", "--codemod-include", cid], "monitors": {"snap": False}})
    return jobs

def call_args(src):
    """per call: argument identities (keyword name or None, source text of the value), in source order"""
    out = []
    for n in ast.walk(ast.parse(src)):
        if isinstance(n, ast.Call):
            items = [((a.lineno, a.col_offset), (None, ast.get_source_segment(src, a))) for a in n.args] + [((k.value.lineno, k.value.col_offset), (k.arg, ast.get_source_segment(src, k.value))) for k in n.keywords]
            out.append([x for _, x in sorted(items)])
    return out

def judge(job, res):
    v = []; st = collections.Counter(); nt = []
    run = res["runs"][0]
    if run["rc"] != 0 or run["exc"]: st["run_failed"] += 1; return v, st, nt
    cm = job["cid"].split("/")[1]; voc = VOCAB[cm]
    for name, src in job["srcs"].items():
        t = run["tree"].get(name)
        if not t or not t.startswith("F:"): continue
        after = unb(t[2:]).decode("utf-8", "replace")
        if after == src: continue
        try: ta = O.tokens(src)
        except SyntaxError: st["input_unparseable"] += 1; continue
        try:
            tb = O.tokens(after)
            if O.parses(src)[0] == "compile" and O.parses(after)[0] != "compile": raise SyntaxError(O.parses(after)[1])     # e.g. "keyword argument repeated" is raised by the compiler, not by ast.parse
        except SyntaxError as ex:
            # the rewritten file does not even parse: whatever was written is not "the documented edit and nothing else"
            lab_ = (job.get("labels", {}).get(name) or "?/orig").split("/", 1)[1]
            v.append(Violation("C16", f"{cm}/output-unparseable/{lab_}", f"rewritten file no longer parses: {ex}", {"codemod": job["cid"], "before": src, "after": after, "shape": lab_})); nt.append((job["id"], name)); continue
        nt.append((job["id"], name)); st["fired:" + job["cid"]] += 1
        al, fr = imported_names(src)
        def allowed(kind, val):
            rx = voc.get(kind)
            if kind in ("name", "attr") and (("@alias" in (voc.get("name").pattern if voc.get("name") else "") and val in al) or ("@fromname" in ((voc.get(kind) or voc.get("name")).pattern if (voc.get(kind) or voc.get("name")) else "") and val in fr)): return True
            return bool(rx and rx.match(val))
        removed = ta - tb; added = tb - ta
        if "removed" in voc:   # a stricter, separate vocabulary for what may disappear
            bad_removed = {k: n for k, n in removed.items() if not (voc["removed"].get(k[0]) and voc["removed"][k[0]].match(k[1]))}
        else: bad_removed = {k: n for k, n in removed.items() if not allowed(*k)}
        bad_added = {k: n for k, n in added.items() if not allowed(*k)}
        w = {"codemod": job["cid"], "before": src, "after": after}
        shape = (job.get("labels", {}).get(name) or "?/orig").split("/", 1)[1]
        if bad_removed: v.append(Violation("C16", f"{cm}/lost-tokens/{shape}", f"tokens outside the documented delta disappeared: {sorted(bad_removed)[:6]}", w))
        if bad_added: v.append(Violation("C16", f"{cm}/extra-tokens/{shape}", f"tokens outside the documented delta appeared: {sorted(bad_added)[:6]}", w))
        # the sentinel inner calls (shapes nested-call-*) are no part of any documented edit: each must come out exactly as it went in
        inner = lambda text: collections.Counter(ast.unparse(n) for n in ast.walk(ast.parse(text)) if isinstance(n, ast.Call) and isinstance(n.func, ast.Name) and n.func.id == "vf_inner_fn")
        ia, ib = inner(src), inner(after)
        if ia: st["inner_calls_compared"] += sum(ia.values())
        if ia != ib: v.append(Violation("C16", f"{cm}/nested-call-altered/{shape}", f"an argument's inner call was changed: {sorted((ia - ib).elements())[:3]} -> {sorted((ib - ia).elements())[:3]}", w))
        # argument order: argument texts that occur exactly once before and after must keep their relative order
        try:
            fb = [a for call in call_args(src) for a in call if a[1]]; fa = [a for call in call_args(after) for a in call if a[1]]
            uniq = [a for a in fb if fb.count(a) == 1 and fa.count(a) == 1]
            pos = [fa.index(a) for a in uniq]
            # nested calls make an outer argument text contain inner ones; compare only within the same call of `before`
            for call in call_args(src):
                mine = [a for a in call if a in uniq]
                idx = [fa.index(a) for a in mine]
                if idx != sorted(idx): v.append(Violation("C16", f"{cm}/argument-order-changed/{shape}", f"arguments {mine} appear in another order after the rewrite", w)); break
            st["order_checked"] += 1
        except SyntaxError: pass
        w["shape"] = job.get("labels", {}).get(name)
        if "vf_marker_fn(vf_arg_one, 'vf literal', 4242, vf_kw=vf_arg_two)" not in after: v.append(Violation("C16", f"{cm}/unrelated-call-changed", "marker call not preserved verbatim", w))
    return v, st, nt

def main():
    return run_check("C16", "exploration", plan, judge, "hardening codemods x seeds x contexts x call shapes (extra keyword / *args / **kw / nested call / keyword-first added to every call) with an unrelated marker call; token multiset delta must lie inside the codemod's vocabulary; non-trivial = file rewritten", 40, deciding_counters=("pipe_libcst",), timeout=600, module=__name__)

if __name__ == "__main__":
    sys.exit(main())
