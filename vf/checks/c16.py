"""PROTOTYPE C16: hardening codemods change only tokens of their documented vocabulary; other arguments survive in order."""
import ast, base64, collections, hashlib, json, os, random, re, sys
from vf import corpus, gen, oracles as O
from vf.runner import run_check, Violation
b64 = lambda b: base64.b64encode(b).decode(); unb = base64.b64decode

# vocabulary: regexes over token values per kind; anything else must be preserved with multiplicity
def V(*pats): return re.compile("^(?:" + "|".join(pats) + ")$")
ANYIMPORT = r".*"
VOCAB = {
 "requests-verify": {"const": V("False", "True")},
 "jwt-decode-verify": {"const": V("False", "True")},
 "subprocess-shell-false": {"const": V("False", "True")},
 "add-requests-timeouts": {"kw": V("timeout"), "const": V("60")},
 "django-json-response-type": {"kw": V("content_type"), "const": V("'application/json'")},
 "enable-jinja2-autoescape": {"kw": V("autoescape"), "const": V("False", "True")},
 "fix-math-isclose": {"kw": V("abs_tol"), "const": V("0", "0\\.0", "1e-09")},
 "harden-ruamel": {"const": V("'unsafe'", "'base'", "'safe'")},
 "harden-pyyaml": {"attr": V("UnsafeLoader", "Loader", "BaseLoader", "FullLoader", "SafeLoader"), "name": V("UnsafeLoader", "Loader", "BaseLoader", "FullLoader", "SafeLoader", "yaml", "@alias"), "kw": V("Loader"), "import": V(ANYIMPORT), "from": V("yaml")},
 "safe-lxml-parser-defaults": {"kw": V("resolve_entities"), "const": V("False", "True")},
 "safe-lxml-parsing": {"kw": V("parser", "resolve_entities"), "const": V("None", "False"), "attr": V("XMLParser", "etree"), "name": V("lxml"), "import": V("lxml\\.etree")},
 "secure-flask-cookie": {"kw": V("secure", "httponly", "samesite"), "const": V("True", "False", "None", "'Lax'", "'Strict'", "'None'")},
 "secure-random": {"name": V("random", "secrets", "@alias", "@fromname"), "attr": V("SystemRandom", "@fromname"), "import": V(ANYIMPORT), "from": V("random")},
 "sandbox-process-creation": {"name": V("safe_command"), "attr": V("run"), "import": V("safe_command"), "from": V("security")},
 "url-sandbox": {"name": V("requests", "safe_requests", "get", "@alias", "@fromname"), "attr": V("get"), "import": V(ANYIMPORT), "from": V("security", "requests")},
 "use-defusedxml": {"name": V(".*"), "attr": V("ElementTree", "sax", "minidom", "pulldom", "parse", "parseString", "fromstring", "iterparse", "XMLParser", "make_parser"), "import": V(ANYIMPORT), "from": V("xml.*", "defusedxml.*")},
 "harden-pickle-load": {"name": V("pickle", "fickling", "load", "@alias", "@fromname"), "attr": V("load"), "import": V(ANYIMPORT), "from": V("pickle")},
 "https-connection": {"name": V("urllib3", "@alias", "@fromname"), "attr": V("HTTPConnectionPool", "HTTPSConnectionPool"), "kw": V("_proxy_config"), "import": V(ANYIMPORT), "from": V("urllib3.*")},
 "upgrade-sslcontext-tls": {"name": V("ssl", "@alias", "@fromname"), "attr": V("PROTOCOL_\\w+"), "kw": V("protocol"), "import": V(ANYIMPORT), "from": V("ssl")},
 "upgrade-sslcontext-minimum-version": {"name": V("ssl", "TLSVersion", "@alias", "@fromname"), "attr": V("SSLv2", "SSLv3", "TLSv1", "TLSv1_1", "TLSv1_2", "MINIMUM_SUPPORTED", "TLSVersion"), "import": V(ANYIMPORT), "from": V("ssl")},
 "limit-readline": {"const": V("5000000")},
 "timezone-aware-datetime": {"name": V("datetime", "timezone", "@alias", "@fromname"), "attr": V("utcnow", "utcfromtimestamp", "now", "fromtimestamp", "timezone", "utc", "datetime"), "kw": V("tz"), "import": V(ANYIMPORT), "from": V("datetime")},
}
def imported_names(src):
    al = set(); fr = set()
    for n in ast.walk(ast.parse(src)):
        if isinstance(n, ast.Import):
            for a in n.names: al.add(a.asname or a.name.split(".")[0])
        elif isinstance(n, ast.ImportFrom):
            for a in n.names: fr.add(a.asname or a.name); 
    return al, fr

def shapes(src, rnd):
    """call-shape mutations applied textually on the last call of the seed: extra kwargs / star args / nested"""
    out = [("orig", src)]
    m = list(re.finditer(r"\)\s*$", src, flags=re.M))
    return out

def plan(tier, seed):
    rnd = random.Random(f"C16:{seed}")
    recs = [r for r in corpus.load() if r["codemod"].startswith("pixee:") and r["codemod"].split("/")[1] in VOCAB and r["input"] != r["expected"] and not r["files"]]
    by = collections.defaultdict(dict)
    ctxs = ("module", "def") if tier == "quick" else ("module", "def", "method", "nested")
    for r in recs:
        for c in ctxs:
            try: s = gen.ctx(r["input"], c)
            except Exception: s = None
            if s is None: continue
            # extra untouched material that must survive: a marker call with unique identifiers and literals
            s2 = s + ("\n" if not s.endswith("\n") else "") + "vf_marker_fn(vf_arg_one, 'vf literal', 4242, vf_kw=vf_arg_two)\n"
            by[r["codemod"]].setdefault(hashlib.sha1(s2.encode()).hexdigest()[:12], (c, s2))
    jobs = []
    for cid, d in sorted(by.items()):
        items = sorted(d.items())
        if corpus.is_semgrep_detected(cid):
            for i in range(0, len(items), 50):
                ch = items[i:i + 50]
                jobs.append({"id": f"{cid}#{i}", "cid": cid, "srcs": {f"v_{h}.py": s for h, (c, s) in ch}, "files": {f"v_{h}.py": b64(s.encode()) for h, (c, s) in ch}, "argv": ["{proj}", "--output", "{out}", "--codemod-include", cid], "monitors": {"snap": False}})
        else:
            for h, (c, s) in items:
                jobs.append({"id": f"{cid}#{h}", "cid": cid, "srcs": {"code.py": s}, "files": {"code.py": b64(s.encode())}, "argv": ["{proj}", "--output", "{out}", "--codemod-include", cid], "monitors": {"snap": False}})
    return jobs

def call_args(src):
    out = []
    for n in ast.walk(ast.parse(src)):
        if isinstance(n, ast.Call):
            out.append([ast.get_source_segment(src, a) for a in n.args] + [ast.get_source_segment(src, k.value) for k in n.keywords])
    return out

def judge(job, res):
    v = []; st = collections.Counter(); nt = []
    run = res["runs"][0]
    if run["rc"] != 0 or run["exc"]: st["run_failed"] += 1; return v, st, nt
    cm = job["cid"].split("/")[1]; voc = VOCAB[cm]
    for name, src in job["srcs"].items():
        t = run["tree"].get(name)
        if not t or not t.startswith("F:"): continue
        after = unb(t[2:]).decode("utf-8", "replace")
        if after == src: continue
        try: ta, tb = O.tokens(src), O.tokens(after)
        except SyntaxError: st["unparseable"] += 1; continue
        nt.append((job["id"], name)); st["fired:" + job["cid"]] += 1
        al, fr = imported_names(src)
        def allowed(kind, val):
            rx = voc.get(kind)
            if kind in ("name", "attr") and (("@alias" in (voc.get("name").pattern if voc.get("name") else "") and val in al) or ("@fromname" in ((voc.get(kind) or voc.get("name")).pattern if (voc.get(kind) or voc.get("name")) else "") and val in fr)): return True
            return bool(rx and rx.match(val))
        removed = ta - tb; added = tb - ta
        bad_removed = {k: n for k, n in removed.items() if not allowed(*k)}
        bad_added = {k: n for k, n in added.items() if not allowed(*k)}
        w = {"codemod": job["cid"], "before": src, "after": after}
        if bad_removed: v.append(Violation("C16", f"{cm}/lost-tokens", f"tokens outside the documented delta disappeared: {sorted(bad_removed)[:6]}", w))
        if bad_added: v.append(Violation("C16", f"{cm}/extra-tokens", f"tokens outside the documented delta appeared: {sorted(bad_added)[:6]}", w))
        if "vf_marker_fn(vf_arg_one, 'vf literal', 4242, vf_kw=vf_arg_two)" not in after: v.append(Violation("C16", f"{cm}/unrelated-call-changed", "marker call not preserved verbatim", w))
    return v, st, nt

def main():
    return run_check("C16", "exploration", plan, judge, "hardening codemods x seeds x contexts with an unrelated marker call; token multiset delta must lie inside the codemod's vocabulary; non-trivial = file rewritten", 40, deciding_counters=("pipe_libcst",), timeout=600, module=__name__)

if __name__ == "__main__":
    sys.exit(main())
