"""C06: SAST fixes land exactly on reported findings (all subsets of replicated sites) and carry them."""
import ast, base64, hashlib, collections, itertools, json, os, random, sys
from vf import corpus, gen, sites as ST
from vf.runner import run_check, Violation
b64 = lambda b: base64.b64encode(b.encode() if isinstance(b, str) else b).decode(); unb = base64.b64decode
FLAG = {"sonar": "--sonar-issues-json", "semgrep": "--sarif", "defectdojo": "--defectdojo-findings-json"}

def findings_of(rec):
    d = json.loads(rec["results"]); out = []
    if rec["tool"] == "sonar":
        for key in ("issues", "hotspots"):
            for it in d.get(key) or []:
                tr = it.get("textRange")
                if tr: out.append({"rule": it.get("rule") or it.get("ruleKey"), "sl": tr["startLine"], "el": tr["endLine"], "sc": tr["startOffset"], "ec": tr["endOffset"]})
    elif rec["tool"] == "semgrep":
        for run in d["runs"]:
            for res in run["results"]:
                for loc in res["locations"]:
                    r = loc["physicalLocation"]["region"]
                    out.append({"rule": res["ruleId"], "sl": r["startLine"], "el": r["endLine"], "sc": r["startColumn"], "ec": r["endColumn"]})
    else:
        for it in d["results"]: out.append({"rule": it["title"], "sl": it["line"], "el": it["line"], "sc": None, "ec": None})
    return out

def build(rec, indents):
    src = rec["input"]; head, body = gen.split_head(src); nhead = head.count("\n")
    if not body.endswith("\n"): body += "\n"
    body_lines = body.splitlines(keepends=True)
    fs = [f for f in findings_of(rec) if f["sl"] > nhead]
    if not fs: return None
    out = head + "VF_PRELUDE = 0\n"; line = nhead + 1; sites = []; ranges = []
    for i, ind in enumerate(indents):
        pad = "    " * ind
        out += ST.BEGIN(i); line += 1
        if ind:
            for d in range(ind): out += "    " * d + f"if SITE_{i}_{d}:\n"; line += 1
        delta = line - nhead
        out += "".join((pad + l if l.strip() else l) for l in body_lines)
        sites.append([dict(f, sl=f["sl"] + delta, el=f["el"] + delta, sc=None if f["sc"] is None else f["sc"] + 4 * ind, ec=None if f["ec"] is None else f["ec"] + 4 * ind, site=i) for f in fs])
        ranges.append((line + 1, line + len(body_lines)))
        line += len(body_lines)
        out += ST.END(i); line += 1
    return out, sites, ranges

def doc(tool, fname, fs, decoys):
    if tool == "sonar":
        items = [{"key": f"K{f['site']}_{j}", "rule": f["rule"], "status": "OPEN", "component": "proj:" + fname, "textRange": {"startLine": f["sl"], "endLine": f["el"], "startOffset": f["sc"], "endOffset": f["ec"]}} for j, f in enumerate(fs)]
        for f in decoys:
            items.append({"key": "DECOY", "rule": f.get("drule", f["rule"]), "status": f.get("dstatus", "OPEN"), "component": "proj:" + f.get("dfile", fname), "textRange": {"startLine": f["sl"], "endLine": f["el"], "startOffset": f["sc"], "endOffset": f["ec"]}})
        # a reviewed security hotspot is the closed state of the hotspot lifecycle (issues: RESOLVED / CLOSED): it comes in the hotspots array, with a resolution
        hot = [dict({k: v for k, v in it.items() if k != "rule"}, ruleKey=it["rule"], resolution=("SAFE", "FIXED", "ACKNOWLEDGED")[n % 3]) for n, it in enumerate(items) if it["status"] == "REVIEWED"]
        items = [it for it in items if it["status"] != "REVIEWED"]
        return json.dumps(dict({"issues": items}, **({"hotspots": hot} if hot else {})))
    if tool == "semgrep":
        mk = lambda f, file, rule: {"ruleId": rule, "message": {"text": "m"}, "locations": [{"physicalLocation": {"artifactLocation": {"uri": file}, "region": {"startLine": f["sl"], "endLine": f["el"], "startColumn": f["sc"], "endColumn": f["ec"]}}}]}
        res = [mk(f, fname, f["rule"]) for f in fs] + [mk(f, f.get("dfile", fname), f.get("drule", f["rule"])) for f in decoys if "dstatus" not in f]
        return json.dumps({"runs": [{"tool": {"driver": {"name": "Semgrep OSS"}}, "results": res}]})
    items = [{"id": 100 + 10 * f["site"] + j, "title": f["rule"], "file_path": fname, "line": f["sl"]} for j, f in enumerate(fs)]
    items += [{"id": 999, "title": f.get("drule", f["rule"]), "file_path": f.get("dfile", fname), "line": f["sl"]} for f in decoys if "dstatus" not in f]
    return json.dumps({"results": items})

def plan(tier, seed):
    rnd = random.Random(f"C06:{seed}")
    recs = [r for r in corpus.load() if r["kind"] == "sast" and r["results"] and r["input"] != r["expected"]]
    jobs = []; seen = collections.Counter()
    for r in recs:
        if seen[r["codemod"]] >= (1 if tier == "quick" else 3): continue
        if r["tool"] == "sonar" and "components" in r["results"]: continue
        k = 3
        for draw in range(1 if tier == "quick" else 4):
            indents = [0, 1, 2] if draw == 0 else [rnd.randint(0, 3) for _ in range(k)]
            b = build(r, indents)
            if b is None: continue
            src, sites, ranges = b
            try: ast.parse(src)
            except SyntaxError: continue
            seen[r["codemod"]] += 1
            subsets = [s for n in range(k + 1) for s in itertools.combinations(range(k), n)]
            for S in subsets:
                fs = [f for i in S for f in sites[i]]
                variants = [("plain", [])]
                if S and S != tuple(range(k)):
                    other = [i for i in range(k) if i not in S][0]
                    variants += [("decoy-foreign-rule", [dict(f, drule="python:S9999" if r["tool"] == "sonar" else "x.y.foreign-rule") for f in sites[other]]),
                                 ("decoy-foreign-file", [dict(f, dfile="other.py") for f in sites[other]])]
                    if r["tool"] == "sonar":
                        sts = ("CLOSED", "RESOLVED", "REVIEWED"); st_v = [("decoy-closed" if st == "CLOSED" else "decoy-" + st.lower(), [dict(f, dstatus=st) for f in sites[other]]) for st in sts]
                        variants += st_v if tier != "quick" else [st_v[len(jobs) % 3]]
                if tier == "quick": variants = variants[:1] + (rnd.sample(variants[1:3], 1) if len(variants) > 1 else []) + variants[3:]
                for vname, decoys in variants:
                    reported = {}
                    for jx, f in enumerate(fs):   # identity as the report will show it: DefectDojo's own id, else the rule id (Sonar keys / SARIF have no identity in CodeTF findings)
                        reported.setdefault(str(f["site"]), []).append({"rule": f["rule"], "id": str(100 + 10 * f["site"] + jx) if r["tool"] == "defectdojo" else f["rule"]})
                    jobs.append({"reported": reported, "id": f"{r['codemod']}|{draw}|{S}|{vname}", "cid": r["codemod"], "S": S, "k": k, "ranges": ranges, "variant": vname, "tool": r["tool"], "src": src, "files": {"code.py": b64(src), "other.py": b64("x = 1\n")},
                                 "result_files": {"r.json": doc(r["tool"], "code.py", fs, decoys)}, "argv": ["{proj}", "--output", "{out}", FLAG[r["tool"]], "{res}/r.json", "--codemod-include", r["codemod"]],
                                 "monitors": {"snap": False}, "n_site_findings": {i: len(sites[i]) for i in range(k)}})
                    # how the result files are handed over (tools that accept several files): one file; the findings split over two; an empty file after / before the real one;
                    # for Sonar an issues file together with a hotspots file that holds nothing open. The reported set is the union, whatever the delivery.
                    if r["tool"] in ("sonar", "defectdojo") and fs:
                        J = jobs[-1]; dl = ("single", "then-empty", "split", "empty-then", "with-other-kind-empty")[len(jobs) % 5]
                        empty = doc(r["tool"], "code.py", [], [])
                        if dl == "then-empty": J["result_files"]["e.json"] = empty; files_arg = "{res}/r.json,{res}/e.json"
                        elif dl == "empty-then": J["result_files"]["e.json"] = empty; files_arg = "{res}/e.json,{res}/r.json"
                        elif dl == "split" and len(fs) >= 2 and r["tool"] == "sonar":      # (DefectDojo identities are numbered per document)
                            J["result_files"] = {"r.json": doc(r["tool"], "code.py", fs[:1], decoys), "s.json": doc(r["tool"], "code.py", fs[1:], [])}; files_arg = "{res}/r.json,{res}/s.json"
                        else: files_arg = "{res}/r.json"
                        J["argv"] = ["{proj}", "--output", "{out}", FLAG[r["tool"]], files_arg, "--codemod-include", r["codemod"]]
                        if dl == "with-other-kind-empty" and r["tool"] == "sonar":
                            other_flag = "--sonar-hotspots-json" if FLAG["sonar"] == "--sonar-issues-json" else "--sonar-issues-json"
                            J["result_files"]["o.json"] = json.dumps({"hotspots": [], "issues": []}); J["argv"] += [other_flag, "{res}/o.json"]
                        J["delivery"] = dl; J["id"] += "|" + dl
    jobs += same_line_jobs(tier, rnd, recs)
    jobs += layout_jobs(tier, rnd, recs)
    return jobs

def _region_of(node, src_lines):
    """Semgrep's SARIF convention for an ast node: 1-based lines, 1-based UTF-8 BYTE columns (ast offsets are byte offsets), end exclusive, snippet = the complete source lines"""
    return {"sl": node.lineno, "sc": node.col_offset + 1, "el": node.end_lineno, "ec": node.end_col_offset + 1, "snippet": "\n".join(src_lines[node.lineno - 1:node.end_lineno])}

def layout_jobs(tier, rnd, recs):
    """Semgrep-driven codemods on re-laid-out sources: the reported construct spans several lines and/or has non-ASCII text around it.
    The finding's region is recomputed for the SAME ast node (k-th node of its type) after the layout transformation."""
    jobs = []; seen = collections.Counter()
    LAY = {"hanging": gen.hanging_calls, "exploded": gen.exploded_calls, "nonascii-prefix": gen.nonascii_prefix, "nonascii-last-arg": gen.nonascii_last_argument,
           "hanging+nonascii-last-arg": lambda s_: (lambda h: gen.nonascii_last_argument(h) if h else None)(gen.hanging_calls(s_)),
           "hanging+nonascii-prefix": lambda s_: (lambda h: gen.nonascii_prefix(h) if h else None)(gen.hanging_calls(s_)),
           # the reported call inside parentheses of its own that open and close on other lines: the tool reports the PARENTHESIZED range
           "paren-multiline": gen.paren_multiline}
    for r in recs:
        if r["tool"] != "semgrep" or seen[r["codemod"]] >= (2 if tier == "quick" else 6): continue
        src = r["input"]
        if not src.isascii(): continue
        try: tree = ast.parse(src)
        except SyntaxError: continue
        fs = findings_of(r)
        nodes = [n for n in ast.walk(tree) if isinstance(n, ast.expr) and hasattr(n, "end_lineno")]
        picks = []
        for f in fs:
            m = [(type(n).__name__, [x for x in nodes if type(x) is type(n)].index(n)) for n in nodes if (n.lineno, n.col_offset + 1, n.end_lineno, n.end_col_offset + 1) == (f["sl"], f["sc"], f["el"], f["ec"])]
            if m: picks.append((f["rule"], m[0]))
        if not picks or len(picks) != len(fs): continue     # every finding of the seed must be an exact expression node, else the region cannot be carried over
        seen[r["codemod"]] += 1
        for lname, fn in LAY.items():
            try: new = fn(src)
            except Exception: new = None
            if not new or new == src: continue
            try: t2 = ast.parse(new)
            except SyntaxError: continue
            nodes2 = [n for n in ast.walk(t2) if isinstance(n, ast.expr) and hasattr(n, "end_lineno")]; lines2 = new.splitlines()
            regions = []
            for rule, (tname, idx) in picks:
                same = [x for x in nodes2 if type(x).__name__ == tname]
                if idx >= len(same): regions = None; break
                reg = _region_of(same[idx], lines2); nd = same[idx]
                if lname == "paren-multiline":
                    if not (nd.lineno >= 2 and nd.end_lineno < len(lines2) and lines2[nd.lineno - 2].rstrip().endswith("(") and lines2[nd.end_lineno].strip().startswith(")")): regions = None; break
                    up, down = lines2[nd.lineno - 2].rstrip(), lines2[nd.end_lineno]
                    reg = {"sl": nd.lineno - 1, "sc": len(up), "el": nd.end_lineno + 1, "ec": down.index(")") + 2, "snippet": "\n".join(lines2[nd.lineno - 2:nd.end_lineno + 1])}
                regions.append(dict(reg, rule=rule))
            if not regions: continue
            for reported in (True, False):
                res = [{"ruleId": g["rule"], "message": {"text": "m"}, "locations": [{"physicalLocation": {"artifactLocation": {"uri": "code.py"}, "region": {"startLine": g["sl"], "startColumn": g["sc"], "endLine": g["el"], "endColumn": g["ec"], "snippet": {"text": g["snippet"]}}}}]} for g in regions] if reported else []
                jobs.append({"id": f"{r['codemod']}|layout:{lname}|{'reported' if reported else 'none'}|{hashlib.sha1(new.encode()).hexdigest()[:8]}", "cid": r["codemod"], "S": (0,) if reported else (), "k": 1, "variant": "layout:" + lname, "tool": "semgrep", "src": new,
                             "files": {"code.py": b64(new), "other.py": b64("x = 1\n")}, "result_files": {"r.json": json.dumps({"runs": [{"tool": {"driver": {"name": "Semgrep OSS"}}, "results": res}]})},
                             "argv": ["{proj}", "--output", "{out}", "--sarif", "{res}/r.json", "--codemod-include", r["codemod"]], "monitors": {"snap": False}, "multiline": any(g["sl"] != g["el"] for g in regions)})
    return jobs

def judge_layout(job, run):
    v = []; st = collections.Counter(); nt = [job["id"]]; cm = job["cid"]
    after = unb(run["tree"]["code.py"][2:]).decode("utf-8", "replace")
    changed = after != job["src"]; reported = bool(job["S"])
    st["layout_cases"] += 1; st["fired:" + cm] += 1
    lay = job["variant"].split(":", 1)[1]
    cls = {"hanging": "multi-line-call", "exploded": "multi-line-call", "hanging+nonascii-last-arg": "multi-line-call+nonascii", "hanging+nonascii-prefix": "multi-line-call+nonascii"}.get(lay, lay)
    w = {"codemod": cm, "layout": lay, "layout_class": cls, "reported": reported, "src": job["src"], "after": after, "result_file": job["result_files"]["r.json"][:1500]}
    if reported and not changed: v.append(Violation("C06", f"reported-not-fixed/{cm}/layout:{cls}", f"{cm}: the reported site (layout {lay}) was not rewritten", w))
    if not reported and changed: v.append(Violation("C06", f"fixes-without-findings/{cm}/layout:{cls}", f"{cm}: file rewritten although the result file reports nothing", w))
    return v, st, nt

def same_line_jobs(tier, rnd, recs):
    """two equally vulnerable sites on ONE physical line (`site; site`, the first at column 0): report the first, the second, both, none.
    The line of the seed's first single-line finding is doubled; the other body lines stay (their findings are not reported)."""
    jobs = []; seen = collections.Counter()
    for r in recs:
        if r["tool"] == "defectdojo" or seen[r["codemod"]] >= (1 if tier == "quick" else 3): continue
        if r["tool"] == "sonar" and "components" in r["results"]: continue
        head, body = gen.split_head(r["input"]); nhead = head.count("\n")
        blines = body.splitlines()
        fs_all = [f for f in findings_of(r) if f["sl"] > nhead and f["sl"] == f["el"] and f["sc"] is not None]
        if not fs_all: continue
        l0 = fs_all[0]["sl"]; idx = l0 - nhead - 1
        if not (0 <= idx < len(blines)): continue
        stmt = blines[idx].rstrip()
        if not stmt or stmt != stmt.lstrip() or stmt.endswith((":", "\\", ",", "(")) or "#" in stmt: continue
        fs = [f for f in fs_all if f["sl"] == l0]
        new_body = blines[:idx] + [stmt + "; " + stmt] + blines[idx + 1:]
        line_no = nhead + 2 + idx + 1   # head, VF_PRELUDE, BEGIN sentinel, body lines
        src = head + "VF_PRELUDE = 0\n" + ST.BEGIN(0) + "\n".join(new_body) + "\n" + ST.END(0)
        try: ast.parse(src)
        except SyntaxError: continue
        if src.splitlines()[line_no - 1] != stmt + "; " + stmt: continue
        seen[r["codemod"]] += 1
        shift = len(stmt) + 2
        halves = {0: [dict(f, sl=line_no, el=line_no, site=0) for f in fs], 1: [dict(f, sl=line_no, el=line_no, sc=f["sc"] + shift, ec=f["ec"] + shift, site=1) for f in fs]}
        for S in ((), (0,), (1,), (0, 1)):
            ff = [f for h in S for f in halves[h]]
            jobs.append({"id": f"{r['codemod']}|same-line|{S}", "cid": r["codemod"], "S": S, "k": 1, "variant": "same-line-double", "stmt": stmt, "double_index": idx, "n_body": len(new_body), "tool": r["tool"], "src": src,
                         "files": {"code.py": b64(src), "other.py": b64("x = 1\n")}, "result_files": {"r.json": doc(r["tool"], "code.py", ff, [])},
                         "argv": ["{proj}", "--output", "{out}", FLAG[r["tool"]], "{res}/r.json", "--codemod-include", r["codemod"]], "monitors": {"snap": False}})
    return jobs

def judge_same_line(job, run):
    v = []; st = collections.Counter(); nt = []; cm = job["cid"]
    after = unb(run["tree"]["code.py"][2:]).decode("utf-8", "replace")
    region = ST.site_text(after, 0)
    if region is None: return v, st, nt
    lines = region.splitlines()
    if len(lines) != job["n_body"] or lines[job["double_index"]].count("; ") != 1: st["same_line_unjudged_multiline_rewrite"] += 1; return v, st, nt
    parts = lines[job["double_index"]].split("; ")
    hit = {i for i in (0, 1) if parts[i] != job["stmt"]}; S = set(job["S"])
    nt.append(job["id"]); st["same_line_cases"] += 1; st["fired:" + cm] += 1
    w = {"codemod": cm, "reported_halves": sorted(S), "rewritten_halves": sorted(hit), "src": job["src"], "after": after, "result_file": job["result_files"]["r.json"]}
    if hit - S: v.append(Violation("C06", f"same-line/unreported-site-rewritten/{cm}", f"two sites on one line, reported {sorted(S)}: site(s) {sorted(hit - S)} rewritten without a finding", w))
    if S - hit: v.append(Violation("C06", f"same-line/reported-site-not-rewritten/{cm}", f"two sites on one line, reported {sorted(S)}: site(s) {sorted(S - hit)} not rewritten", w))
    return v, st, nt

def site_text(text, i):
    a = text.find(ST.BEGIN(i)); b = text.find(ST.END(i))
    return text[a:b] if a >= 0 and b >= 0 else None

def judge(job, res):
    v = []; st = collections.Counter(); nt = []
    run = res["runs"][0]; cm = job["cid"]
    if run["rc"] != 0 or run["exc"]:
        v.append(Violation("C06", f"run-failed/{cm}", f"rc={run['rc']} exc={run['exc']}", {"argv": job["argv"], "log": run["log"][-600:]})); return v, st, nt
    if job["variant"] == "same-line-double": return judge_same_line(job, run)
    if job["variant"].startswith("layout:"): return judge_layout(job, run)
    after = unb(run["tree"]["code.py"][2:]).decode("utf-8", "replace")
    hit = ST.sites_changed(job["src"], after, job["k"])
    S = set(job["S"])
    if 0 < len(S) < job["k"] or job["variant"] != "plain": nt.append(job["id"])
    st["fired:" + cm] += 1
    w = {"codemod": cm, "reported_sites": sorted(S), "rewritten_sites": sorted(hit), "variant": job["variant"], "src": job["src"], "after": after}
    if hit - S:
        key = f"ignores-findings/{cm}" if S or job["variant"] != "plain" else f"fixes-without-findings/{cm}"
        v.append(Violation("C06", key, f"sites {sorted(hit - S)} rewritten without a finding (reported {sorted(S)}, {job['variant']})", w))
    if S - hit:
        v.append(Violation("C06", f"reported-not-fixed/{cm}", f"sites {sorted(S - hit)} reported but not rewritten", w))
    if other := (run["tree"].get("other.py") != "F:" + b64("x = 1\n")): v.append(Violation("C06", f"foreign-file-touched/{cm}", "other.py changed", w))
    # findings carried: every rewritten reported site has a change entry (on one of its lines) carrying a finding reported for that site, and no entry of the site carries anything else
    if hit and hit == S:
        lines = job["src"].splitlines(keepends=True)
        extent = {}
        for i in range(job["k"]):
            try: extent[i] = (lines.index(ST.BEGIN(i)) + 1, lines.index(ST.END(i)) + 1)
            except ValueError: pass
        changes = [c for r in run["report"]["results"] for cs in r["changeset"] if cs["path"] == "code.py" for c in cs["changes"]]
        for i in sorted(hit):
            a, b = extent.get(i, (0, -1))
            mine = [c for c in changes if a <= c["lineNumber"] <= b]
            carried = [str(f.get("id")) for c in mine for f in (c.get("findings") or [])]
            want = {x["id"] for x in job["reported"].get(str(i), [])}
            st["sites_checked_for_findings"] += 1
            if not carried:
                v.append(Violation("C06", f"finding-not-carried/{cm}", f"site {i} was rewritten but no change entry on its lines {a}-{b} carries a finding (entries on lines {sorted(c['lineNumber'] for c in changes)})", w)); break
            foreign = [x for x in carried if x not in want]
            if foreign:
                v.append(Violation("C06", f"foreign-finding-carried/{cm}", f"site {i}: change entries carry {foreign}, reported for this site: {sorted(want)}", w)); break
        tool = [r.get("detectionTool") for r in run["report"]["results"]][0]
        if not tool: v.append(Violation("C06", f"no-detection-tool/{cm}", "result lacks detectionTool", w))
    return v, st, nt

def main():
    return run_check("C06", "exploration", plan, judge, "each SAST codemod: seed body replicated 3x between sentinels at varying indentation, all 8 subsets of sites reported in the tool's format, plus foreign-rule / foreign-file / closed decoys; non-trivial = proper subset or decoy", 60, deciding_counters=("pipe_libcst",), timeout=300, module=__name__)

if __name__ == "__main__":
    sys.exit(main())
