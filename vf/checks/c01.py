"""PROTOTYPE C01: every write leaves a file that still parses."""
import base64, collections, os, sys, warnings
warnings.simplefilter("ignore")
from vf import oracles as O
from vf.checks import grid
from vf.runner import run_check, Violation
unb = base64.b64decode

def judge(job, res):
    v = []; st = collections.Counter(); nt = []
    for run in res["runs"][:1]:
        if run["rc"] != 0 or run["exc"]:
            st["run_failed"] += 1; continue
        for e in run["trace"]:
            if e["k"] != "pipe" or e["before"] is None or e["after"] is None or e["before"] == e["after"]: continue
            name = os.path.basename(e["path"]); lab = tuple(job["labels"].get(name, ()))
            try: bt = O.decode(unb(e["before"]))
            except UnicodeDecodeError: continue
            okb, _ = O.parses(bt)
            if not okb: st["before_unparseable"] += 1; continue
            nt.append((job["cid"], name, job["id"])); st["fired:" + job["cid"]] += 1
            try: at = O.decode(unb(e["after"]))
            except UnicodeDecodeError:
                v.append(Violation("C01", f"{job['cid'].split('/')[1]}/undecodable", "output is not UTF-8", {"codemod": job["cid"], "labels": lab})); continue
            oka, err = O.parses(at)
            if oka is None or (okb == "compile" and oka != "compile"):
                v.append(Violation("C01", f"{job['cid'].split('/')[1]}/invalid-syntax", f"rewritten file no longer parses: {err}", {"codemod": job["cid"], "labels": lab, "before": bt, "after": at}))
    return v, st, nt

def main():
    return run_check("C01", "exploration", grid.plan, judge, "grid of codemod x seed x context x import style x layout; non-trivial = a write happened on a file that parsed before", 50, deciding_counters=("pipe_libcst", "update_code"), module=__name__)

if __name__ == "__main__":
    sys.exit(main())
