"""C01: every write leaves a file that still parses."""
import base64, collections, os, sys, warnings
warnings.simplefilter("ignore")
from vf import oracles as O
from vf.checks import grid
from vf.runner import run_check, Violation
unb = base64.b64decode

def judge(job, res):
    v = []; st = collections.Counter(); nt = []
    for run in res["runs"][:1]:
        if run["rc"] != 0 or run["exc"]:
            st["run_failed"] += 1; continue
        for e in run["trace"]:
            if e["k"] == "dep_write" and not str(e["path"]).endswith(".py"): continue     # the dependency writer also rewrites Python source (setup.py): judged like any other write
            if e["k"] not in ("pipe", "dep_write") or e["before"] is None or e["after"] is None or e["before"] == e["after"]: continue
            name = os.path.basename(e["path"]); lab = tuple(job["labels"].get(name, ()))
            bb, ab = unb(e["before"]), unb(e["after"])
            okb, _ = O.parses(bb)                      # bytes: the compiler honours BOM and PEP 263 cookie itself
            if not okb: st["before_unparseable"] += 1; continue
            nt.append((job["cid"], name, job["id"])); st["fired:" + job["cid"]] += 1
            oka, err = O.parses(ab)
            if oka is None or (okb == "compile" and oka != "compile"):
                try: bt, at = O.decode(bb), ab.decode("utf-8", "replace")
                except (UnicodeDecodeError, LookupError): bt, at = repr(bb), repr(ab)
                kind = "undecodable-output" if "codec can't decode" in str(err) or "unicode error" in str(err) or "multibyte" in str(err) else "invalid-syntax"
                v.append(Violation("C01", f"{job['cid'].split('/')[1]}/{kind}", f"rewritten file no longer parses: {err}", {"codemod": job["cid"], "labels": lab, "before": bt, "after": at}))
    return v, st, nt

def main():
    return run_check("C01", "exploration", grid.plan, judge, "grid of codemod x seed x context x import style x layout; non-trivial = a write happened on a file that parsed before", 50, deciding_counters=("pipe_libcst", "update_code"), module=__name__)

if __name__ == "__main__":
    sys.exit(main())
