"""One grid, four oracles (C01 parse, C02 scope, C03 patch, C07 fixed point)."""
import base64, collections, hashlib, json, os, random, sys, time
from vf import corpus, gen, oracles as O
from vf.pool import Pool

b64 = lambda b: base64.b64encode(b).decode()
unb = lambda s: base64.b64decode(s)

def variants(src, contexts, imports, layouts):
    out = []
    for c in contexts:
        try: s = gen.twice(src) if c == "twice" else gen.twice_defs(src) if c == "twice-defs" else gen.ctx(src, c)
        except Exception: s = None
        if s is None: continue
        for imp in imports:
            fn = {"plain": lambda x: x, "alias": gen.alias_import, "from": gen.from_import, "second-use": gen.second_use, "mixed": gen.mixed_imports}[imp]
            try: s2 = fn(s)
            except Exception: s2 = None
            if s2 is None: continue
            for l in layouts:
                try:
                    if l in ("cp1252", "latin-1", "shift_jis"):
                        d_ = gen.legacy_encoding(s2, l)
                        if d_ is not None: out.append(((c, imp, "legacy-encoding-" + l), d_))
                    elif l.startswith("shape-"):
                        # call shapes of C16 as a layout: extra arguments (**mapping, *sequence, keyword) appended to every call of the seed
                        from vf.checks import c16 as _c16
                        s3 = dict(_c16.shapes(s2)).get(l[6:])
                        if s3 is not None: out.append(((c, imp, l), s3.encode("utf-8")))
                    elif l in gen.CALL_LAYOUTS:
                        s3 = gen.CALL_LAYOUTS[l](s2)
                        if s3 is not None: out.append(((c, imp, l), s3.encode("utf-8")))
                    else: out.append(((c, imp, l), gen.layout(s2, l)))
                except Exception: pass
    return out

def _items_for_codemod(arg):
    """all variants of one codemod's seeds (runs in a pool process: libcst restyling is the expensive, single-threaded part of a plan)"""
    import warnings; warnings.simplefilter("ignore")
    tier, ctxs, imps, lays, rs, pick = arg
    seen = {}
    for r in rs:
        # every seed in its base form; a function-local decoy import of what the codemod adds at module level (hint taken from the seed's expected imports, never an oracle)
        seen.setdefault(hashlib.sha1(r["input"].encode()).hexdigest()[:12], (("module", "plain", "lf"), r["input"].encode()))
        dec = gen.local_decoy(r["input"], gen.added_imports(r["input"], r["expected"]))
        if dec is not None: seen.setdefault(hashlib.sha1(dec.encode()).hexdigest()[:12], (("local-decoy-import", "plain", "lf"), dec.encode()))
    for r in pick:
        dup = gen.local_duplicate_import(r["input"])
        if dup is not None: seen.setdefault(hashlib.sha1(dup.encode()).hexdigest()[:12], (("local-duplicate-import", "plain", "lf"), dup.encode()))
    for ri, r in enumerate(pick):
        vs = variants(r["input"], ctxs, imps, lays)
        have = {(label[0], label[2]) for label, _ in vs}
        for label, data in vs:
            # layouts only on plain/module+def to bound the grid
            if label[2] != "lf" and not (label[1] == "plain" and label[0] in ("module", "def")): continue
            if tier == "quick" and label[1] != "plain" and label[0] not in ("module", "def"): continue      # import styles x {module, def} only in the quick tier
            if tier == "quick" and label[2] != "lf":
                # quick tier: each byte / call layout in ONE of the two contexts, alternating from seed to seed; the other context when the preferred one does not exist for this seed
                pref = ("module", "def")[(ri + lays.index(label[2].replace("legacy-encoding-", "")) if label[2].replace("legacy-encoding-", "") in lays else ri) % 2]
                other = "def" if pref == "module" else "module"
                if label[0] != (pref if (pref, label[2]) in have else other): continue
            h = hashlib.sha1(data).hexdigest()[:12]
            seen.setdefault(h, (label, data))
    # two different seeds of the codemod in one file, in both orders, with plain and from-imports (the kinds of site a codemod knows meet in one module)
    for ri, r in enumerate(pick):
        if len(pick) < 2: break
        other = pick[(ri + 1) % len(pick)]
        for a_, b_ in ((r, other), (other, r)) if tier != "quick" or ri % 2 == 0 else ((r, other),):
            try: s_ = gen.pair(a_["input"], b_["input"])
            except Exception: s_ = None
            if s_ is None: continue
            for imp, fn in (("plain", lambda x: x), ("from", gen.from_import)):
                try: s2 = fn(s_)
                except Exception: s2 = None
                if s2 is None: continue
                data = s2.encode("utf-8"); seen.setdefault(hashlib.sha1(data).hexdigest()[:12], (("pair", imp, "lf"), data))
    return sorted(seen.items())

_PLANS = {}
def plan(tier, seed):
    """the shared grid; computed once per process and (tier, seed) - several checks and C15/C20 ask for it more than once"""
    if (tier, seed) not in _PLANS: _PLANS[(tier, seed)] = _plan(tier, seed)
    return [dict(j) for j in _PLANS[(tier, seed)]]

def _plan(tier, seed):
    import concurrent.futures as cf
    rnd = random.Random(f"grid:{seed}")
    recs = [r for r in corpus.load() if r["codemod"].startswith("pixee:") and r["input"] != r["expected"] and not r["files"]]
    by = collections.defaultdict(list)
    for r in recs: by[r["codemod"]].append(r)
    if tier == "quick":
        per, ctxs, imps, lays = 5, ("module", "def", "nested", "twice", "twice-defs", "closure", "comprehension", "global"), ("plain", "alias", "from", "second-use", "mixed"), ("lf", "crlf", "bom", "exploded", "trailing-comma", "semicolon", "keywords-reversed", "cp1252", "dataflow", "shape-double-star", "formfeed", "operator-linebreak", "paren-multiline", "compare-multiline")
    else:
        per, ctxs, imps, lays = 10**6, ("module", "def", "async", "method", "nested", "prelude", "twice", "twice-defs", "closure", "comprehension", "global"), ("plain", "alias", "from", "second-use", "mixed"), ("lf", "crlf", "nonl", "bom", "tabs", "unicode", "exploded", "exploded-comments", "trailing-comma", "semicolon", "backslash", "formfeed", "keywords-reversed", "hanging", "cp1252", "latin-1", "shift_jis", "dataflow", "shape-double-star", "shape-star-args", "shape-extra-keyword", "shape-keyword-first", "operator-linebreak", "paren-multiline", "compare-multiline")
    jobs = []; args = []; cids = []
    for cid, rs in sorted(by.items()):
        rs = sorted(rs, key=lambda r: hashlib.sha1(r["input"].encode()).hexdigest())
        pick = rs if len(rs) <= per else rs[:per // 2] + rnd.sample(rs[per // 2:], per - per // 2)
        slim = lambda r: {"input": r["input"], "expected": r["expected"]}
        args.append((tier, ctxs, imps, lays, [slim(r) for r in rs], [slim(r) for r in pick])); cids.append(cid)
    with cf.ProcessPoolExecutor(max_workers=int(os.environ.get("VF_WORKERS", "14"))) as ex:
        all_items = list(ex.map(_items_for_codemod, args))
    for cid, items in zip(cids, all_items):
        if corpus.is_semgrep_detected(cid):
            for i in range(0, len(items), 50):
                chunk = items[i:i + 50]
                jobs.append({"id": f"{cid}#{i}", "cid": cid, "labels": {f"v_{h}.py": lab for h, (lab, d) in chunk},
                             "files": {f"v_{h}.py": b64(d) for h, (lab, d) in chunk},
                             "argv": ["{proj}", "--output", "{out}", "--codemod-include", cid], "repeat": 2, "monitors": {"snap": False}})
        else:
            for h, (lab, d) in items:
                jobs.append({"id": f"{cid}#{h}", "cid": cid, "labels": {"code.py": lab}, "files": {"code.py": b64(d)},
                             "argv": ["{proj}", "--output", "{out}", "--codemod-include", cid], "repeat": 2, "monitors": {"snap": False}})
    jobs += sast_jobs(tier, seed) + django_jobs() + family_jobs(tier, seed) + manifest_jobs(tier, seed) + large_project_jobs(tier, seed)
    return jobs

def large_project_jobs(tier, seed):
    """a project with several hundred files, a handful of them with a site of a semgrep-detected codemod spread over the sorted file list: size is a dimension too"""
    out = []
    for cid, trig in (("pixee:python/requests-verify", b"import requests\nrequests.get('https://example.com', verify=False)\n"),) + ((("pixee:python/secure-random", b"import random\nx = random.random()\n"),) if tier != "quick" else ()):
        n = 520 + 10 * (seed % 3); hot = {3, 120, 250, n - 21, n - 20, n - 13, n - 1}
        files = {f"pkg{i // 100}/mod_{i:04d}.py": b64(trig if i in hot else b"value_%d = %d\n" % (i, i)) for i in range(n)}
        out.append({"id": f"{cid}#large-project", "cid": cid, "labels": {os.path.basename(k): ("large-project", "plain", "lf") for k in files}, "files": files,
                    "argv": ["{proj}", "--output", "{out}", "--codemod-include", cid], "repeat": 2, "monitors": {"snap": False}})
    return out

def manifest_jobs(tier, seed):
    """dependency-adding codemods on projects whose manifest is itself a Python file (setup.py): the dependency writer rewrites source too"""
    from vf.checks import c03
    deps = dict(c03.DEP_CODEMODS)
    deps.update({"pixee:python/url-sandbox": "import requests\nfrom flask import request\ndef v():\n    requests.get(request.args['u'])\n", "pixee:python/sandbox-process-creation": "import subprocess\nfrom flask import request\ndef v():\n    subprocess.run(request.args['c'])\n"})
    setups = {"setup_py": c03.MANIFESTS["setup_py"], "setup_py_crlf": c03.MANIFESTS["setup_py_crlf"], "setup_py_triggers": {"setup.py": c03.SETUP_PY_WITH_TRIGGERS}, "setup_py+req": dict(c03.MANIFESTS["setup_py"], **{"requirements.txt": b"requests\n"}),
              "setup_py_one_line": {"setup.py": b'from setuptools import setup\nsetup(name="x", install_requires=["requests"])\n'}, "setup_py_single_quotes": {"setup.py": b"from setuptools import setup\nsetup(\n    name='x',\n    install_requires=[\n        'requests>=2; python_version >= \"3.8\"',\n    ],\n)\n"}}
    out = []
    for cid, src in sorted(deps.items()):
        for mk, mf in sorted(setups.items()):
            files = {"app.py": b64(src.encode())}; files.update({k: b64(v) for k, v in mf.items()})
            out.append({"id": f"{cid}#manifest:{mk}", "cid": cid, "labels": {n: ("manifest", mk, "lf") for n in files}, "files": files, "argv": ["{proj}", "--output", "{out}", "--codemod-include", cid], "repeat": 2, "monitors": {"snap": False}})
    return out

def family_jobs(tier, seed):
    """the generated program families of vf.families (boolean templates, comparison chains, nested sites, import blocks, sql pieces ...) as extra grid inputs"""
    from vf import families
    rnd = random.Random(f"families:{seed}")
    cases = families.all_cases(rnd, tier != "quick")
    if tier == "quick":
        by = collections.defaultdict(list)
        for c in cases: by[(c["cid"], c["shape"], c["vclass"])].append(c)
        cases = [x for k, v in sorted(by.items()) for x in (v if len(v) <= 4 else rnd.sample(v, 4))]
    jobs = []; batch = collections.defaultdict(list)
    for c in cases:
        h = hashlib.sha1(c["src"].encode()).hexdigest()[:12]; lab = ("family", c["shape"], c["vclass"])
        if corpus.is_semgrep_detected(c["cid"]): batch[c["cid"]].append((h, lab, c["src"]))
        else:
            jobs.append({"id": f"{c['cid']}#fam:{h}", "cid": c["cid"], "labels": {"code.py": lab}, "files": {"code.py": b64(c["src"].encode())},
                         "argv": ["{proj}", "--output", "{out}", "--codemod-include", c["cid"]], "repeat": 2, "monitors": {"snap": False}})
    for cid, items in sorted(batch.items()):
        items = sorted(set(items))
        for i in range(0, len(items), 50):
            ch = items[i:i + 50]
            jobs.append({"id": f"{cid}#fam:{i}", "cid": cid, "labels": {f"v_{h}.py": lab for h, lab, s_ in ch}, "files": {f"v_{h}.py": b64(s_.encode()) for h, lab, s_ in ch},
                         "argv": ["{proj}", "--output", "{out}", "--codemod-include", cid], "repeat": 2, "monitors": {"snap": False}})
    return jobs

FLAG = {"sonar": None, "semgrep": "--sarif", "defectdojo": "--defectdojo-findings-json"}
def result_args(tool, results_text):
    d = json.loads(results_text)
    if tool == "semgrep":
        for run in d.get("runs", []): run.setdefault("tool", {"driver": {"name": "Semgrep OSS"}})
        return ["--sarif", "{res}/r.json"], json.dumps(d)
    if tool == "sonar":
        return (["--sonar-issues-json", "{res}/r.json"] if "issues" in d else ["--sonar-hotspots-json", "{res}/r.json"]), json.dumps(d)
    return ["--defectdojo-findings-json", "{res}/r.json"], json.dumps(d)

def sast_jobs(tier, seed):
    jobs = []; k_ = 0
    for r in corpus.load():
        if r["kind"] != "sast" or not r["results"] or r["input"] == r["expected"]: continue
        name = r["files"][0] if r["files"] else "code.py"; k_ += 1
        for lay in (("lf", "bom", ("crlf", "nonl")[(k_ + seed) % 2]) if tier == "quick" else ("lf", "crlf", "bom", "nonl")):
            # layouts that keep line/column positions valid
            data = gen.layout(r["input"], lay)
            args, doc = result_args(r["tool"], r["results"])
            h = hashlib.sha1(data + doc.encode()).hexdigest()[:12]
            # (every SAST project has a manifest: the tool-driven variants of the dependency-adding codemods write to it)
            jobs.append({"id": f"{r['codemod']}#{h}", "cid": r["codemod"], "labels": {name: ("module", "plain", lay), "requirements.txt": ("manifest", "req_lf", "")}, "files": {name: b64(data), "requirements.txt": b64(b"requests\n")},
                         "result_files": {"r.json": doc}, "argv": ["{proj}", "--output", "{out}"] + args + ["--codemod-include", r["codemod"]], "repeat": 2, "monitors": {"snap": False}})
    return jobs

def django_jobs():
    jobs = []
    for r in corpus.load():
        if r["files"] == ["settings.py"] and r["input"] != r["expected"] and r["codemod"].startswith("pixee:"):
            h = hashlib.sha1(r["input"].encode()).hexdigest()[:12]
            jobs.append({"id": f"{r['codemod']}#{h}", "cid": r["codemod"], "labels": {"settings.py": ("django", "plain", "lf")},
                         "files": {"mysite/mysite/settings.py": b64(r["input"].encode()), "mysite/manage.py": b64(b"")},
                         "argv": ["{proj}", "--output", "{out}", "--codemod-include", r["codemod"]], "repeat": 2, "monitors": {"snap": False}})
    return jobs

def judge(job, res):
    viol = []; stats = collections.Counter()
    if res.get("status") != "ok":
        stats["inconclusive_" + res.get("status", "?")] += 1; return viol, stats
    r1, r2 = res["runs"]
    if r1["rc"] != 0 or r1["exc"]:
        viol.append(("RUN", job["cid"], None, f"rc={r1['rc']} exc={r1['exc']}")); return viol, stats
    css = {}
    for r in (r1["report"] or {}).get("results", []):
        for cs in r["changeset"]: css.setdefault(cs["path"], []).append(cs)
    for e in r1["trace"]:
        if e["k"] != "pipe": continue
        stats["pipe_events"] += 1
        name = os.path.basename(e["path"]); lab = tuple(job["labels"].get(name, ()))
        if e["before"] is None or e["after"] is None or e["before"] == e["after"]: continue
        stats["rewrites"] += 1
        bb, ab = unb(e["before"]), unb(e["after"])
        try: bt, at = O.decode(bb), O.decode(ab)
        except UnicodeDecodeError:
            viol.append(("C01", job["cid"], lab, "undecodable output")); continue
        okb, _ = O.parses(bt)
        if okb:
            oka, err = O.parses(at)
            if oka is None or (okb == "compile" and oka != "compile"):
                viol.append(("C01", job["cid"], lab, err)); continue
            ub, ua = O.unresolved(bt), O.unresolved(at)
            if ub is None or ua is None: stats["scope_unknown"] += 1
            else:
                stats["scope_checked"] += 1
                if not ua <= ub: viol.append(("C02", job["cid"], lab, sorted(ua - ub)))
        cl = css.get(name, [])
        if len(cl) != 1: viol.append(("C03", job["cid"], lab, f"{len(cl)} changesets for rewritten file"))
        else:
            try:
                got, notes = O.apply_unified(bb.decode("utf-8"), cl[0]["diff"])
                if not O.same_mod_final_newline(got, ab.decode("utf-8")):
                    key = "bom-dropped" if bb.startswith(b"\xef\xbb\xbf") and not ab.startswith(b"\xef\xbb\xbf") and O.same_mod_final_newline(got.lstrip("﻿"), ab.decode("utf-8")) else "patch!=disk"
                    viol.append(("C03", job["cid"], lab, key))
                else: stats["patch_ok"] += 1
            except O.PatchError as ex: viol.append(("C03", job["cid"], lab, "patch-fail " + str(ex)[:80]))
            except UnicodeDecodeError: pass
    if r2["rc"] != 0: viol.append(("RUN2", job["cid"], None, f"rc={r2['rc']}"))
    n_w2 = sum(1 for e in r2["trace"] if e["k"] == "write")
    changed2 = [k for k in r1["tree"] if r2["tree"].get(k) != r1["tree"][k]]
    if stats["rewrites"]: stats["fixedpoint_checked"] += 1
    if changed2 or n_w2 or any(r["changeset"] for r in (r2["report"] or {}).get("results", [])):
        for k in changed2 or ["?"]: viol.append(("C07", job["cid"], tuple(job["labels"].get(k, ())), f"second run changed {k} writes={n_w2}"))
    return viol, stats

def main():
    tier = sys.argv[1] if len(sys.argv) > 1 else "quick"; seed = int(os.environ.get("VERIF_SEED", "0"))
    t0 = time.time(); jobs = plan(tier, seed); print(len(jobs), "jobs planned in", round(time.time() - t0, 1), "s; files:", sum(len(j["files"]) for j in jobs))
    pool = Pool()
    # long jobs first
    order = sorted(range(len(jobs)), key=lambda i: -len(jobs[i]["files"]))
    res = pool.map([jobs[i] for i in order], timeout=600, progress=500); pool.close()
    allv = []; st = collections.Counter()
    for i, r in zip(order, res):
        v, s = judge(jobs[i], r); allv += v; st += s
    print("wall", round(time.time() - t0, 1), "stats", dict(st))
    c = collections.Counter((v[0], v[1].split("/")[1], v[3] if v[0] == "C03" else "") for v in allv)
    for k, n in sorted(c.items()): print(k, n)
    for v in allv:
        if v[0] not in ("C03",): print(v)

if __name__ == "__main__":
    main()
