"""C09: one multi-codemod run == chain of single-codemod runs (tree and per-codemod results)."""
import base64, collections, copy, hashlib, json, os, random, sys
from vf import corpus
from vf.runner import run_check, Violation
b64 = lambda b: base64.b64encode(b).decode()

def plan(tier, seed):
    rnd = random.Random(f"C09:{seed}")
    recs = [r for r in corpus.load() if r["codemod"].startswith("pixee:") and r["input"] != r["expected"] and not r["files"]]
    by = collections.defaultdict(list)
    for r in recs: by[r["codemod"]].append(r)
    cids = sorted(by); jobs = []
    INTERACT = [["pixee:python/add-requests-timeouts", "pixee:python/url-sandbox"], ["pixee:python/requests-verify", "pixee:python/add-requests-timeouts", "pixee:python/url-sandbox"],
                ["pixee:python/secure-random", "pixee:python/unused-imports"], ["pixee:python/fix-float-equality", "pixee:python/fix-math-isclose"], ["pixee:python/sandbox-process-creation", "pixee:python/subprocess-shell-false"],
                ["pixee:python/use-defusedxml", "pixee:python/harden-pickle-load", "pixee:python/url-sandbox"]]
    seqs = list(INTERACT)
    for _ in range(6 if tier == "quick" else 80):
        seqs.append(rnd.sample(cids, rnd.randint(3, 6)))
    # interaction list: (codemod that adds an import / moves lines) x (semgrep-detected codemod) on the same file
    movers = ["pixee:python/use-defusedxml", "pixee:python/harden-pickle-load", "pixee:python/secure-random", "pixee:python/timezone-aware-datetime", "pixee:python/sandbox-process-creation", "pixee:python/url-sandbox"]
    detected = sorted(c for c in cids if corpus.is_semgrep_detected(c))
    pairs = [[a, b] for a in movers for b in detected if a != b and a in by and b in by]
    rnd.shuffle(pairs)
    seqs += pairs[: (6 if tier == "quick" else 60)]
    for q, ks in enumerate(seqs):
        files = {}
        for k in ks:
            for n, r in enumerate(rnd.sample(by[k], min(2, len(by[k])))):
                files[f"{k.split('/')[1].replace('-', '_')}_{n}.py"] = b64(r["input"].encode())
        # one file with a site of every codemod of the sequence, in order: an earlier codemod's edit (added import, added line) moves the later codemods' findings
        from vf import gen as _gen
        heads, bodies = [], []
        for k in ks:
            h_, b_ = _gen.split_head(by[k][0]["input"]); heads.append(h_); bodies.append(b_ if b_.endswith("\n") else b_ + "\n")
        shared = "".join(dict.fromkeys(heads)) + "\n".join(bodies)
        try:
            compile(shared, "<shared>", "exec"); files["shared_sites.py"] = b64(shared.encode())
        except SyntaxError: pass
        # every codemod also sees the other codemods' files -> cross triggers
        files["requirements.txt"] = b64(b"requests\n")
        if q % 2 == 0: files["legacy_py2_syntax.py"] = b64(b"import os\nprint 'py2 statement'\nx = set([1])\n")       # every codemod that selects it must list it as failed, in the batch as in the chain
        if q % 3 == 0: files["not_utf8.py"] = b64(b"import os\ns = '\xff\xfe'\n")
        files["crafted_literal_get.py"] = b64(b"import requests\nrequests.get('https://example.com')\n")
        # the same triggers in directories that tools with ignore rules of their own skip when they walk a directory (vendor/, node_modules/): codemodder selects them like any other file
        files["vendor/lib_client.py"] = b64(b"import requests\nrequests.get('https://example.com/v')\nrequests.get('u', verify=False)\n")
        files["node_modules/pkg/tool.py"] = b64(b"import subprocess\ncmd = input()\nsubprocess.run(cmd, shell=True)\n")
        files["crafted_subprocess.py"] = b64(b"import subprocess\ncmd = input()\nsubprocess.run(cmd, shell=True)\n")
        base = ["{proj}", "--output", "{out}"]
        tgt = ("abs", "rel", "dot")[q % 3]      # how the target is spelled, i.e. whether the project lies below the working directory of the run
        jobs.append({"id": f"seq{q}|batch", "pair": q, "kind": "batch", "ks": ks, "files": files, "target": tgt, "argv": base + ["--codemod-include", ",".join(ks)], "monitors": {"snap": False, "pipe": False}})
        jobs.append({"id": f"seq{q}|chain", "pair": q, "kind": "chain", "ks": ks, "files": files, "target": tgt, "argv": [], "steps": [base + ["--codemod-include", k] for k in ks], "monitors": {"snap": False, "pipe": False}})
    if tier != "quick":
        # the whole default set in one invocation vs one invocation per codemod in the same order, on a project holding seeds of every codemod
        from codemodder import registry as _reg
        default_ids = [c.id for c in _reg.load_registered_codemods().match_codemods(None, None, sast_only=False)]
        for q in range(2):
            files = {}
            for k in cids:
                rs = by[k]
                for n, r in enumerate(rnd.sample(rs, min(2, len(rs)))): files[f"all/{k.split('/')[1].replace('-', '_')}_{n}.py"] = b64(r["input"].encode())
            files["requirements.txt"] = b64(b"requests\n")
            base_ = ["{proj}", "--output", "{out}"]
            jobs.append({"id": f"default-set{q}|batch", "pair": f"d{q}", "kind": "batch", "ks": default_ids, "files": files, "argv": base_, "monitors": {"snap": False, "pipe": False}})
            jobs.append({"id": f"default-set{q}|chain", "pair": f"d{q}", "kind": "chain", "ks": default_ids, "files": files, "argv": [], "steps": [base_ + ["--codemod-include", k] for k in default_ids], "monitors": {"snap": False, "pipe": False}})
    from vf.checks import c03
    extra = [(["pixee:python/use-defusedxml", "pixee:python/fix-mutable-params", "pixee:python/use-set-literal"], {"setup.py": b64(c03.SETUP_PY_WITH_TRIGGERS), "app.py": b64(b"import xml.sax\nxml.sax.parse('f')\n")}),
             (["pixee:python/fix-mutable-params", "pixee:python/use-defusedxml"], {"setup.py": b64(c03.SETUP_PY_WITH_TRIGGERS), "app.py": b64(b"import xml.sax\nxml.sax.parse('f')\n")}),
             (["pixee:python/url-sandbox", "pixee:python/sandbox-process-creation"], {"requirements.txt": b64(b"requests\n"), "app.py": b64(b"import requests\nimport subprocess\nfrom flask import request\ndef v():\n    requests.get(request.args['u'])\n    subprocess.run(request.args['c'])\n")}),
             (["pixee:python/sandbox-process-creation", "pixee:python/url-sandbox"], {"pyproject.toml": b64(b'[project]\nname = "x"\ndependencies = [\n    "requests",\n]\n'), "app.py": b64(b"import requests\nimport subprocess\nfrom flask import request\ndef v():\n    requests.get(request.args['u'])\n    subprocess.run(request.args['c'])\n")})]
    # several dependency-adding codemods in one run where an EARLIER one finds its package already declared (by the project, or by a still earlier codemod of the batch)
    # and a LATER one needs a different package; one and two manifests
    DEPSRC = {"pixee:python/use-defusedxml": b"import xml.sax\nxml.sax.parse('f')\n", "pixee:python/harden-pickle-load": b"import pickle\npickle.load(open('f','rb'))\n",
              "pixee:python/flask-enable-csrf-protection": b"from flask import Flask\napp = Flask(__name__)\n",
              "pixee:python/url-sandbox": b"import requests\nfrom flask import request\ndef v():\n    requests.get(request.args['u'])\n", "pixee:python/sandbox-process-creation": b"import subprocess\nfrom flask import request\ndef w():\n    subprocess.run(request.args['c'])\n"}
    DECL = {"pixee:python/use-defusedxml": "defusedxml", "pixee:python/harden-pickle-load": "fickling", "pixee:python/flask-enable-csrf-protection": "flask-wtf", "pixee:python/url-sandbox": "security", "pixee:python/sandbox-process-creation": "security"}
    dep_ids = sorted(DEPSRC)
    for q in range(4 if tier == "quick" else 24):
        ks = rnd.sample(dep_ids, rnd.randint(2, 4))
        declared = [DECL[k] for k in ks[:-1] if rnd.random() < 0.6]
        mf = {"requirements.txt": b64(("requests\n" + "".join(d + "\n" for d in declared)).encode())}
        if q % 2: mf["pyproject.toml"] = b64(('[project]\nname = "x"\ndependencies = [\n  "requests",\n' + "".join(f'  "{d}",\n' for d in declared) + "]\n").encode())
        files = {f"m_{k.split('/')[1].replace('-', '_')}.py": b64(DEPSRC[k]) for k in ks}; files.update(mf)
        extra.append((ks, files))
    # SAST-driven codemods of DIFFERENT tools in one invocation (Sonar issues + hotspots, Semgrep SARIF, DefectDojo), findings of the tools in partly different files
    from vf.checks import c11 as _c11
    SAST_KS = ["sonar:python/url-sandbox", "sonar:python/secure-random", "semgrep:python/url-sandbox", "semgrep:python/django-secure-set-cookie", "defectdojo:python/django-secure-set-cookie"]
    for q in range(2 if tier == "quick" else 10):
        sfiles, sres = _c11.sast_project(rnd, rnd.choice((9, 12)))
        ks = SAST_KS[:] if q % 2 == 0 else rnd.sample(SAST_KS, len(SAST_KS))
        flags = ["--sonar-issues-json", "{res}/issues.json", "--sonar-hotspots-json", "{res}/hotspots.json", "--sarif", "{res}/semgrep.sarif", "--defectdojo-findings-json", "{res}/dd.json"]
        fs = {rel: b64(data) for rel, data in sfiles.items()}
        jobs.append({"id": f"sast{q}|batch", "pair": f"s{q}", "kind": "batch", "ks": ks, "files": fs, "result_files": sres, "argv": ["{proj}", "--output", "{out}"] + flags + ["--codemod-include", ",".join(ks)], "monitors": {"snap": False, "pipe": False}})
        jobs.append({"id": f"sast{q}|chain", "pair": f"s{q}", "kind": "chain", "ks": ks, "files": fs, "result_files": sres, "argv": [], "steps": [["{proj}", "--output", "{out}"] + flags + ["--codemod-include", k] for k in ks], "monitors": {"snap": False, "pipe": False}})
    # find-and-fix and tool-driven codemods mixed in ONE explicit include list, the find-and-fix one aimed at the same sites (pixee secure-random / sonar secure-random):
    # whichever comes first in the list fixes the site and the other finds nothing - in the batch exactly as in the chain
    for q in range(2 if tier == "quick" else 8):
        sfiles, sres = _c11.sast_project(rnd, rnd.choice((9, 12)))
        rest = rnd.sample(SAST_KS, len(SAST_KS))
        ks = (["pixee:python/secure-random"] + rest) if q % 2 == 0 else (lambda i: rest[:i] + ["pixee:python/secure-random"] + rest[i:])(rnd.randint(1, len(rest)))
        flags = ["--sonar-issues-json", "{res}/issues.json", "--sonar-hotspots-json", "{res}/hotspots.json", "--sarif", "{res}/semgrep.sarif", "--defectdojo-findings-json", "{res}/dd.json"]
        fs = {rel: b64(data) for rel, data in sfiles.items()}
        jobs.append({"id": f"mixed{q}|batch", "pair": f"m{q}", "kind": "batch", "ks": ks, "files": fs, "result_files": sres, "argv": ["{proj}", "--output", "{out}"] + flags + ["--codemod-include", ",".join(ks)], "monitors": {"snap": False, "pipe": False}})
        jobs.append({"id": f"mixed{q}|chain", "pair": f"m{q}", "kind": "chain", "ks": ks, "files": fs, "result_files": sres, "argv": [], "steps": [["{proj}", "--output", "{out}"] + flags + ["--codemod-include", k] for k in ks], "monitors": {"snap": False, "pipe": False}})
    base = ["{proj}", "--output", "{out}"]
    for q, (ks, files) in enumerate(extra):
        jobs.append({"id": f"xseq{q}|batch", "pair": f"x{q}", "kind": "batch", "ks": ks, "files": files, "argv": base + ["--codemod-include", ",".join(ks)], "monitors": {"snap": False, "pipe": False}})
        jobs.append({"id": f"xseq{q}|chain", "pair": f"x{q}", "kind": "chain", "ks": ks, "files": files, "argv": [], "steps": [base + ["--codemod-include", k] for k in ks], "monitors": {"snap": False, "pipe": False}})
    return jobs

_pairs = {}
def normres(r, proj):
    r = copy.deepcopy(r)
    return json.loads(json.dumps(r, sort_keys=True).replace(proj, "P"))

def judge(job, res):
    v = []; st = collections.Counter(); nt = []
    runs = res["runs"]
    if any(r["rc"] != 0 or r["exc"] for r in runs):
        st["run_failed"] += 1
        v.append(Violation("C09", f"run-failed/{job['kind']}", str([(r['rc'], r['exc']) for r in runs]), {"ks": job["ks"], "log": runs[-1]["log"][-500:]})); return v, st, nt
    if job["kind"] == "batch":
        per = {r["codemod"]: normres(r, runs[0]["proj"]) for r in runs[0]["report"]["results"]}; tree = runs[0]["tree"]
        sg = [(e["kind"], len(e["targets"] or [])) for e in runs[0]["trace"] if e["k"] == "sg_call"]
    else:
        per = {run["report"]["results"][0]["codemod"]: normres(run["report"]["results"][0], run["proj"]) for run in runs}; tree = runs[-1]["tree"]; sg = None
    _pairs.setdefault(job["pair"], {})[job["kind"]] = (per, tree, sg)
    P = _pairs[job["pair"]]
    if len(P) == 2:
        (pb, tb, sg), (pc, tc, _) = P["batch"], P["chain"]
        changed = sum(1 for k in pb if pb[k]["changeset"])
        if changed >= 2: nt.append(job["pair"])
        w = {"sequence": job["ks"]}
        difft = sorted(k for k in set(tb) | set(tc) if tb.get(k) != tc.get(k))
        diffr = [k for k in job["ks"] if pb.get(k) != pc.get(k)]
        if difft or diffr:
            # classify: consumer codemod whose result differs; producer = earlier codemod that touched the same file
            cons = diffr[0] if diffr else "?"
            files_c = {cs["path"] for cs in pc.get(cons, {}).get("changeset", [])} ^ {cs["path"] for cs in pb.get(cons, {}).get("changeset", [])}
            prod = [k for k in job["ks"][: job["ks"].index(cons)] if any(cs["path"] in files_c for cs in pb[k]["changeset"])] if cons in job["ks"] else []
            from vf import corpus as C
            if not diffr:
                # every per-codemod result agrees and only the final tree differs: some write was lost or replayed behind the report's back
                writers = [k.split("/")[1] for k in job["ks"] if any(cs["path"] in difft for cs in pb.get(k, {}).get("changeset", []))]
                key = "tree-differs-results-agree/" + (os.path.basename(difft[0]) if difft and os.path.basename(difft[0]) in ("setup.py", "requirements.txt", "pyproject.toml", "setup.cfg") else "source-file") + "/" + ">".join(writers[:3])
            elif difft and all(os.path.basename(x) in ("setup.py", "requirements.txt", "pyproject.toml", "setup.cfg") for x in difft): key = f"dependency-write-differs/{cons.split('/')[1]}"      # only manifests differ: the dependency step, not the detector
            elif C.is_semgrep_detected(cons): key = f"stale-prefilter/{prod[0].split('/')[1] if prod else '?'}>{cons.split('/')[1]}"
            else: key = f"batch-chain-differs/{cons.split('/')[1]}"
            v.append(Violation("C09", key, f"tree diff {difft[:4]}, result diff for {diffr[:4]}", dict(w, tree_diff=difft, result_diff=diffr, batch=pb.get(cons), chain=pc.get(cons))))
    return v, st, nt

def main():
    return run_check("C09", "exploration", plan, judge, "curated interacting sequences, mover x semgrep-detected pairs on a shared file, manifest-is-source and same-package sequences, random sequences (thorough: the whole default set on a project with seeds of every codemod); batch run vs chain of single runs, tree and per-codemod results; non-trivial = >=2 codemods changed the project", 4, deciding_counters=("_apply",), timeout=2400, module=__name__)

if __name__ == "__main__":
    sys.exit(main())
