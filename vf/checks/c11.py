"""C11: results do not depend on scheduling, worker count, hash seed, file creation order or sibling files; in-flight files <= --max-workers.

Every execution is one real CLI process (vf.cli_boot, so PYTHONHASHSEED and the switch interval are real) with
  H-file : in-flight counter under the monitor's lock around BaseCodemod._process_file, seeded per-file delays before the work item,
           begin/end sequence = schedule signature
  H-ctx  : invariant at a hook - the context aggregates are mutated only by the coordinating thread
  H-fp   : (thorough) sys.monitoring LINE-event yield injection inside repository code + sys.setswitchinterval(1e-6)
Oracle: all normalised (report, tree) pairs of one group are equal; max in-flight <= w; run(D)|f == run({f})|f for sibling-independent codemods."""
import base64, collections, copy, hashlib, json, os, random, shutil, subprocess, sys, tempfile, time
from vf import env, blackbox as BB
from vf.runner import Violation, finish, tier_seed

FF_CODEMODS = ["pixee:python/use-set-literal", "pixee:python/invert-boolean-check", "pixee:python/unused-imports", "pixee:python/use-generator", "pixee:python/fix-empty-sequence-comparison", "pixee:python/remove-unnecessary-f-str"]
FF_SEMGREP = ["pixee:python/secure-random", "pixee:python/requests-verify"]

def relayout(text: str, k: int) -> bytes:
    """real projects are not uniform: some files carry a BOM, some CRLF, some no final newline"""
    kind = ("lf", "lf", "bom", "crlf", "nonl", "lf")[k % 6]
    if kind == "bom": return b"\xef\xbb\xbf" + text.encode()
    if kind == "crlf": return text.replace("\n", "\r\n").encode()
    if kind == "nonl": return text.rstrip("\n").encode()
    return text.encode()

def ff_project(rnd, n):
    files = {}
    # the same base names in several directories (helpers.py, __init__.py), each with something to fix, and files of very different sizes
    for d in ("pkg0", "pkg1", "pkg2", "pkg0/sub"):
        files[f"{d}/helpers.py"] = relayout(f"import os\nH_{d.replace('/', '_')} = set([1, 2])\n" + "".join(f"pad_{i} = {i}\n" for i in range(rnd.choice((0, 40, 400)))), rnd.randint(0, 5))
        files[f"{d}/__init__.py"] = relayout(f"def init_{d.replace('/', '_')}(a, b):\n    return not a == b\n", rnd.randint(0, 5))
    for i in range(n):
        body = [f"import os\nx{i} = set([{i}])\n", f"def f{i}(a, b):\n    if not a == b:\n        return {i}\n    return 0\n", f"import random\nv{i} = random.random()\n", f"y{i} = {i}\n",
                f"t{i} = any([z > {i} for z in range(9)])\n", f"import requests\nr{i} = requests.get('u{i}', verify=False)\n", f"s{i} = f'plain {i}'\nif s{i} != '':\n    pass\n",
                f"import os\nimport sys\nimport json\nfrom collections import OrderedDict, defaultdict\nz{i} = {i}\n"][i % 8]      # several unused imports in one file: several change entries per changeset
        files[f"pkg{i % 3}/m{i:02d}.py"] = relayout(body, rnd.randint(0, 5))
    return files

URL = 'import requests\nfrom flask import Flask, request\napp = Flask(__name__)\n@app.route("/e")\ndef example():\n    url = request.args["url"]\n    requests.get(url)\n'
RND = "import random\nv = random.random()\n"
COOKIE = 'from django.shortcuts import render\ndef index(request, template):\n    response = render(request, template)\n    response.set_cookie("name", "value")\n    return response\n'
def sast_project(rnd, n):
    files = {}; issues = []; hotspots = []; sarif = []; dd = []
    for i in range(n):
        rel = (f"app{i % 2}/s{i:02d}.py", (f"a_top_s{i:02d}.py" if i % 2 else f"s{i:02d}_top.py"), f"app{i % 2}/deep/er/s{i:02d}.py")[(i // 3) % 3]; kind = i % 3      # top-level, nested and deeply nested files with findings: the default include patterns overlap differently on each
        if kind == 0:
            files[rel] = URL.encode()
            issues.append({"key": f"I{i}", "rule": "pythonsecurity:S5144", "status": "OPEN", "component": "proj:" + rel, "textRange": {"startLine": 7, "endLine": 7, "startOffset": 4, "endOffset": 21}})
            sarif.append({"ruleId": "python.django.security.injection.ssrf.ssrf-injection-requests.ssrf-injection-requests", "message": {"text": "m"},
                          "locations": [{"physicalLocation": {"artifactLocation": {"uri": rel}, "region": {"startLine": 7, "endLine": 7, "startColumn": 5, "endColumn": 22}}}]})
        elif kind == 1:
            files[rel] = RND.encode()
            hotspots.append({"key": f"H{i}", "rule": "python:S2245", "status": "TO_REVIEW", "component": "proj:" + rel, "textRange": {"startLine": 2, "endLine": 2, "startOffset": 4, "endOffset": 19}})
        else:
            files[rel] = COOKIE.encode()
            sarif.append({"ruleId": "python.django.security.audit.secure-cookies.django-secure-set-cookie", "message": {"text": "m"},
                          "locations": [{"physicalLocation": {"artifactLocation": {"uri": rel}, "region": {"startLine": 4, "endLine": 4, "startColumn": 5, "endColumn": 41}}}]})
            dd.append({"id": 500 + i, "title": "python.django.security.audit.secure-cookies.django-secure-set-cookie", "file_path": rel, "line": 4})
    res = {"issues.json": json.dumps({"issues": issues}), "hotspots.json": json.dumps({"hotspots": hotspots}),
           "semgrep.sarif": json.dumps({"runs": [{"tool": {"driver": {"name": "Semgrep OSS"}}, "results": sarif}]}), "dd.json": json.dumps({"results": dd})}
    return files, res

def run_one(case):
    d = tempfile.mkdtemp(prefix="vf_c11_"); proj = os.path.join(d, "proj"); os.makedirs(proj)
    order = sorted(case["files"]); random.Random(case["order_seed"]).shuffle(order)
    for rel in order:
        p = os.path.join(proj, rel); os.makedirs(os.path.dirname(p), exist_ok=True); open(p, "wb").write(case["files"][rel])
    for name, text in (case.get("result_files") or {}).items(): open(os.path.join(d, name), "w").write(text)
    argv = [proj, "--output", os.path.join(d, "out.json"), "--max-workers", str(case["w"])] + [a.replace("{dir}", d) for a in case["argv"]]
    e = env.child_env({"PYTHONHASHSEED": str(case["hashseed"])}, scratch_home=os.path.join(d, "home")); os.makedirs(e["HOME"]); e["TMPDIR"] = os.path.join(d, "tmp"); os.makedirs(e["TMPDIR"])
    mon = {"snap": False, "pipe": False, "write": False, "dep": False, "sg": False, "delays": {"seed": case["delay_seed"], "max_ms": case.get("max_ms", 6)}}
    if case.get("yield"): mon["yield"] = case["yield"]
    try:
        r = subprocess.run([env.PY, "-m", "vf.cli_boot", os.path.join(d, "trace.json"), json.dumps(mon), proj, "--"] + argv, env=e, capture_output=True, text=True, timeout=900)
        tr = json.load(open(os.path.join(d, "trace.json")))
        try: rep = json.load(open(os.path.join(d, "out.json")))
        except (OSError, ValueError): rep = None     # the run did not get as far as its report: an observable outcome, not a harness problem
        tree = {}
        for dp, dn, fn in os.walk(proj):
            for f in fn:
                p = os.path.join(dp, f); tree[os.path.relpath(p, proj)] = base64.b64encode(open(p, "rb").read()).decode()
        out = {"status": "ok", "rc": r.returncode, "trace": tr, "report": rep, "tree": tree, "proj": proj}
    except subprocess.TimeoutExpired:
        out = {"status": "timeout"}
    except Exception as ex:
        out = {"status": "error", "error": repr(ex)[:300]}
    shutil.rmtree(d, ignore_errors=True)
    return out

def norm(rep, proj):
    if rep is None: return "NO-REPORT"
    r = copy.deepcopy(rep); r["run"]["elapsed"] = 0; r["run"]["directory"] = ""; r["run"]["commandLine"] = ""
    return json.dumps(r, sort_keys=True).replace(proj, "P")

def per_file(rep, tree, rel):
    """what the run did to one file: final bytes + every changeset entry naming it, per codemod, in result order"""
    return {"bytes": tree.get(rel), "changes": [(res["codemod"], cs["diff"], [(c["lineNumber"], c["description"]) for c in cs["changes"]]) for res in rep["results"] for cs in res["changeset"] if cs["path"] == rel]}

def plan(tier, seed):
    rnd = random.Random(f"C11:{seed}"); groups = []
    quick = tier == "quick"
    for g in range(2 if quick else 10):
        n = rnd.choice((14, 21, 28) if quick else (14, 28, 42, 60))
        files = ff_project(rnd, n)
        cms = list(FF_CODEMODS) + ([rnd.choice(FF_SEMGREP)] if (g % 2 == 0) else [])
        rnd.shuffle(cms)
        groups.append({"mode": "find-and-fix", "files": files, "result_files": {}, "argv": ["--codemod-include", ",".join(cms)], "sibling_probe": sorted(files)[:: max(1, n // 3)][:3] + ["pkg1/helpers.py"], "codemods": cms})
        # the same project with line-scoped excludes on the probe files (every odd line): the filter of a file must not depend on which siblings were processed before it
        probes = groups[-1]["sibling_probe"]
        pats = [f"{rel}:{ln}" for rel in probes for ln in range(1, files[rel].count(b"\n") + 2, 2)]
        groups.append({"mode": "find-and-fix", "files": files, "result_files": {}, "argv": ["--codemod-include", ",".join(cms), "--path-exclude", ",".join(pats)], "sibling_probe": probes, "codemods": cms, "k": 4, "line_scoped": True})
        sfiles, res = sast_project(rnd, rnd.choice((9, 12, 18)))
        groups.append({"mode": "sast", "files": sfiles, "result_files": res, "argv": ["--sonar-issues-json", "{dir}/issues.json", "--sonar-hotspots-json", "{dir}/hotspots.json", "--sarif", "{dir}/semgrep.sarif", "--defectdojo-findings-json", "{dir}/dd.json"], "sibling_probe": []})
    # hardening codemods on a project holding MANY call shapes of their trigger (C16's shapes: extra / preset keywords with every value of the documented vocabulary, * and ** arguments ...):
    # what a codemod does to one file must not depend on which shapes it met in the files before it
    from vf.checks import c16 as _c16
    from vf import corpus as _corpus
    hrecs = [r for r in _corpus.load() if r["codemod"].startswith("pixee:") and r["codemod"].split("/")[1] in _c16.VOCAB and r["input"] != r["expected"] and not r["files"]]
    hby = collections.defaultdict(list)
    for r in hrecs: hby[r["codemod"]].append(r)
    multi = sorted(c for c in hby if len(_c16.vocab_keywords(c.split("/")[1])) >= 2) or sorted(hby)
    picks_h = ["pixee:python/secure-flask-cookie"] if "pixee:python/secure-flask-cookie" in hby else []
    picks_h += [c for c in rnd.sample(sorted(hby), min(len(hby), 1 if quick else 6)) if c not in picks_h]
    for cid in picks_h:
        files = {}
        for r in sorted(hby[cid], key=lambda r: r["input"])[:3]:
            for label, text in _c16.shapes(r["input"], cid.split("/")[1]):
                files[f"shape_{hashlib.sha1(text.encode()).hexdigest()[:10]}.py"] = text.encode()
        if len(files) < 4: continue
        names = sorted(files)
        groups.append({"mode": "find-and-fix", "files": files, "result_files": {}, "argv": ["--codemod-include", cid], "sibling_probe": names[-2:] + names[len(names) // 2: len(names) // 2 + 1], "codemods": [cid], "k": 3, "shapes": True})
    cases = []
    for gi, G in enumerate(groups):
        k = G.get("k") or (6 if quick else 14)
        ws = [1, 2, 4, 16]
        for j in range(k):
            w = ws[j % 4] if j < 4 else rnd.choice(ws)
            c = {"group": gi, "kind": "perturbed", "mode": G["mode"], "files": G["files"], "result_files": G["result_files"], "argv": G["argv"], "w": w, "delay_seed": rnd.randint(0, 10**6),
                 "hashseed": [0, 1, 2, 3, 4, "random"][j % 6] if j < 6 else rnd.choice((0, 1, 2, 3, 4)), "order_seed": rnd.randint(0, 10**6)}
            if not quick and j % 5 == 4 and G["mode"] == "find-and-fix" and len(G["files"]) <= 28: c["yield"] = {"seed": rnd.randint(0, 10**6), "p": 0.03}
            cases.append(c)
        for rel in G["sibling_probe"]:
            cases.append({"group": gi, "kind": "single-file", "rel": rel, "mode": G["mode"], "files": {rel: G["files"][rel]}, "result_files": {}, "argv": G["argv"], "w": 1, "delay_seed": 0, "hashseed": 0, "order_seed": 0})
    return groups, cases

def judge_group(gi, G, items):
    """items: list of (case, result) with status ok"""
    viols = []; info = {"sigs": set(), "overlap": 0, "n": 0, "max_inflight": collections.Counter()}
    outs = collections.defaultdict(list); ref = None
    for c, r in items:
        if c["kind"] != "perturbed": continue
        info["n"] += 1
        ev = [e for e in r["trace"]["events"] if e["k"] in ("file_begin", "file_end")]
        info["sigs"].add(hashlib.sha1(json.dumps([(e["k"], os.path.basename(e["path"]), e["cm"]) for e in ev]).encode()).hexdigest())
        mx = max((e["inflight"] for e in ev if e["k"] == "file_begin"), default=0)
        info["max_inflight"][f"w={c['w']}:max={mx}"] += 1
        if mx > 1: info["overlap"] += 1
        if mx > c["w"]:
            viols.append(Violation("C11", "max-workers-exceeded", f"{mx} files in flight with --max-workers {c['w']}", {"w": c["w"], "max_inflight": mx, "mode": c["mode"], "n_files": len(c["files"])}, jobs=[strip(c)]))
        off = [e for e in r["trace"]["events"] if e["k"] == "ctx_mut" and not e["main"]]
        if off: viols.append(Violation("C11", "aggregates-mutated-off-coordinating-thread", f"{off[0]['method']} called from a worker thread", {"event": off[0]}, jobs=[strip(c)]))
        sig = hashlib.sha1((norm(r["report"], r["proj"]) + json.dumps(r["tree"], sort_keys=True)).encode()).hexdigest()
        outs[sig].append((c, r))
        if ref is None: ref = (c, r)
    if len(outs) > 1:
        classes = list(outs.values())
        hs = [sorted({str(c["hashseed"]) for c, _ in cl}) for cl in classes]
        disjoint_hash = not any(set(a) & set(b) for k, a in enumerate(hs) for b in hs[k + 1:])
        ws_ = [sorted({c["w"] for c, _ in cl}) for cl in classes]
        (c1, r1), (c2, r2) = classes[0][0], classes[1][0]
        if r1["report"] is None or r2["report"] is None:
            bad = r1 if r1["report"] is None else r2; badc = c1 if r1["report"] is None else c2
            viols.append(Violation("C11", "some-executions-abort/" + G["mode"], f"the same (project, argv) completes in some executions and aborts in others: rc={bad['rc']} exc={bad['trace'].get('exc')} with w={badc['w']}",
                                   {"mode": G["mode"], "workers_by_output": ws_, "exc": bad["trace"].get("exc")}, jobs=[strip(c1), strip(c2)]))
            return viols, dict(info, sibling_checked=0)
        tree_diff = sorted(k for k in set(r1["tree"]) | set(r2["tree"]) if r1["tree"].get(k) != r2["tree"].get(k))
        o1 = [x["codemod"] for x in r1["report"]["results"]]; o2 = [x["codemod"] for x in r2["report"]["results"]]
        what = "tree differs: " + str(tree_diff[:4]) if tree_diff else ("results[] order differs" if o1 != o2 and sorted(o1) == sorted(o2) else "report differs")
        key = ("hashseed-dependent-output" if disjoint_hash else "nondeterministic-output") + "/" + G["mode"]
        viols.append(Violation("C11", key, f"{len(outs)} distinct outputs for one (project, argv): {what}; hash seeds per output {hs}, workers per output {ws_}",
                               {"mode": G["mode"], "hashseeds_by_output": hs, "workers_by_output": ws_, "tree_diff": tree_diff, "result_order_1": o1[:12], "result_order_2": o2[:12]}, jobs=[strip(c1), strip(c2)]))
    # sibling independence
    sib = 0
    if ref is not None:
        for c, r in items:
            if c["kind"] != "single-file" or r["rc"] != 0 or r["report"] is None or ref[1]["report"] is None: continue
            sib += 1
            a = per_file(ref[1]["report"], ref[1]["tree"], c["rel"]); b = per_file(r["report"], r["tree"], c["rel"])
            if a != b:
                cm = next((x[0] for x, y in zip(a["changes"] + [(None,)], b["changes"] + [(None,)]) if x != y), "?")
                viols.append(Violation("C11", f"sibling-dependent/{str(cm).split('/')[-1]}" + ("/line-scoped-patterns" if G.get("line_scoped") else "") + ("/call-shapes-project" if G.get("shapes") else ""), f"{c['rel']}: outcome with siblings differs from outcome alone", {"file": c["rel"], "with_siblings": a, "alone": b}, jobs=[strip(ref[0]), strip(c)]))
    info["sibling_checked"] = sib
    return viols, info

def strip(c):
    d = dict(c); d["files"] = {k: base64.b64encode(v).decode() for k, v in c["files"].items()}; return d

def main():
    tier, seed = tier_seed(); t0 = time.time()
    groups, cases = plan(tier, seed)
    res = BB.pmap(run_one, cases, workers=max(2, int(os.environ.get("VF_WORKERS", "14")) // 2))
    by = collections.defaultdict(list); inconcl = 0; counters = collections.Counter()
    for c, r in zip(cases, res):
        if r["status"] != "ok": inconcl += 1; continue
        for k, n in (r["trace"].get("counters") or {}).items(): counters[k] += n
        by[c["group"]].append((c, r))
    viols = []; sigs = set(); overlap = 0; n = 0; hist = collections.Counter(); nontrivial = set(); sib = 0; samples = []; perturb = collections.Counter()
    for gi, G in enumerate(groups):
        v, info = judge_group(gi, G, by.get(gi, []))
        viols += v; sigs |= info["sigs"]; overlap += info["overlap"]; n += info["n"]; hist.update(info["max_inflight"]); sib += info["sibling_checked"]
        for c, r in by.get(gi, []):
            if c["kind"] == "perturbed":
                nontrivial.add((gi, c["w"], c["delay_seed"], str(c["hashseed"]), c["order_seed"], bool(c.get("yield"))))
                perturb["hashseed=" + str(c["hashseed"])] += 1; perturb["w=" + str(c["w"])] += 1
                if c.get("yield"): perturb["line-yield-injection"] += 1
        if by.get(gi) and len(samples) < 3:
            c, r = by[gi][0]
            ev = [e for e in r["trace"]["events"] if e["k"] in ("file_begin", "file_end")][:12]
            samples.append({"mode": c["mode"], "n_files": len(c["files"]), "argv": c["argv"], "w": c["w"], "hashseed": c["hashseed"], "delay_seed": c["delay_seed"], "order_seed": c["order_seed"],
                            "schedule_prefix": [(e["k"], os.path.basename(e["path"]), e.get("inflight")) for e in ev], "results_order": [x["codemod"] for x in (r["report"] or {"results": []})["results"]][:8]})
    return finish("C11", "exploration", tier, seed, t0, evaluations=n + sib, nontrivial=nontrivial, violations=viols, min_nontrivial=16, counters=counters, deciding_counters=("process_file", "ctx_add_changesets"),
                  inconclusive_cases=inconcl, samples=samples, module=__name__,
                  stats={"distinct_schedule_signatures": len(sigs), "executions_with_overlapping_work_items": overlap, "max_inflight_by_workers": dict(hist), "sibling_independence_probes": sib, "perturbations": dict(perturb)},
                  required={"executions in which >=2 work items overlapped": overlap, "distinct schedule signatures (>=4)": 1 if len(sigs) >= 4 else 0, "sibling probes": sib},
                  rule="groups of executions of one (project, argv) under different worker counts {1,2,4,16}, seeded per-file delays, hash seeds {0..4, random}, file creation orders (and LINE-event yield injection in the thorough tier), find-and-fix and SAST mode (Sonar issues+hotspots, Semgrep SARIF, DefectDojo together); non-trivial = a perturbed execution completed; distinct by (group, w, delay seed, hash seed, creation order)",
                  assumptions=["CPython's GIL bounds the interleavings that exist; delays are injected only at the per-file work-item boundary and (thorough) at statement starts inside repository code", "output normalisation drops run.elapsed, run.directory and run.commandLine only"])

def replay(art):
    out = []
    cases = []
    for j in art.get("jobs") or []:
        c = dict(j); c["files"] = {k: base64.b64decode(v) for k, v in j["files"].items()}; cases.append(c)
    if not cases: return out
    res = [run_one(c) for c in cases]
    items = [(c, r) for c, r in zip(cases, res) if r["status"] == "ok"]
    G = {"mode": cases[0]["mode"]}
    for c in cases: c.setdefault("group", 0)
    v, _ = judge_group(0, G, items)
    return v

if __name__ == "__main__":
    sys.exit(main())
