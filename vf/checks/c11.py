"""PROTOTYPE C11: output independent of workers, schedule, hash seed, creation order, siblings; in-flight <= max-workers."""
import base64, collections, copy, hashlib, json, os, random, shutil, subprocess, sys, tempfile, time
from vf import env, blackbox as BB
from vf.runner import Violation, load_known

def project(rnd, n):
    files = {}
    for i in range(n):
        body = [f"import os\nx{i} = set([{i}])\n", f"def f{i}(a, b):\n    if not a == b:\n        return {i}\n    return 0\n", f"import random\nv{i} = random.random()\n", f"y{i} = {i}\n"][i % 4]
        files[f"pkg{i % 3}/m{i:02d}.py"] = body.encode()
    return files

SONAR = lambda files: json.dumps({"issues": [{"rule": "python:S2245", "status": "OPEN", "component": "proj:" + p, "textRange": {"startLine": 2, "endLine": 2, "startOffset": 5 + len(p.split('/m')[1][:2]) - 2, "endOffset": 5 + len(p.split('/m')[1][:2]) - 2 + 15}} for p in sorted(files) if b"random.random()" in files[p]]})
def sarif(files):
    res = []
    for p in sorted(files):
        if b"random.random()" in files[p]:
            pass
    return json.dumps({"runs": [{"tool": {"driver": {"name": "Semgrep OSS"}}, "results": []}]})

def run_one(case):
    d = tempfile.mkdtemp(prefix="vf_c11_"); proj = os.path.join(d, "proj"); os.makedirs(proj)
    order = list(case["files"]); random.Random(case["order_seed"]).shuffle(order)
    for rel in order:
        p = os.path.join(proj, rel); os.makedirs(os.path.dirname(p), exist_ok=True); open(p, "wb").write(case["files"][rel])
    open(os.path.join(d, "sonar.json"), "w").write(SONAR(case["files"]))
    argv = [proj, "--output", os.path.join(d, "out.json"), "--max-workers", str(case["w"])] + [a.replace("{dir}", d) for a in case["argv"]]
    e = env.child_env({"PYTHONHASHSEED": str(case["hashseed"])}, scratch_home=os.path.join(d, "home")); os.makedirs(e["HOME"])
    mon = {"snap": False, "pipe": False, "write": False, "dep": False, "sg": False, "delays": {"seed": case["delay_seed"], "max_ms": 6}}
    try:
        r = subprocess.run([env.PY, "-m", "vf.cli_boot", os.path.join(d, "trace.json"), json.dumps(mon), proj, "--"] + argv, env=e, capture_output=True, text=True, timeout=600)
        tr = json.load(open(os.path.join(d, "trace.json"))); rep = json.load(open(os.path.join(d, "out.json")))
        tree = {}
        for dp, dn, fn in os.walk(proj):
            for f in fn:
                p = os.path.join(dp, f); tree[os.path.relpath(p, proj)] = hashlib.sha1(open(p, "rb").read()).hexdigest()
        out = {"status": "ok", "rc": r.returncode, "trace": tr, "report": rep, "tree": tree, "proj": proj}
    except Exception as ex:
        out = {"status": "error", "error": repr(ex)[:300]}
    shutil.rmtree(d, ignore_errors=True)
    return out

def norm(rep, proj):
    r = copy.deepcopy(rep); r["run"]["elapsed"] = 0; r["run"]["directory"] = ""; r["run"]["commandLine"] = ""
    return json.dumps(r, sort_keys=True).replace(proj, "P")

def main():
    tier = os.environ.get("VERIF_TIER") or (sys.argv[sys.argv.index("--tier") + 1] if "--tier" in sys.argv else "quick")
    seed = int(os.environ.get("VERIF_SEED", "0")); rnd = random.Random(f"C11:{seed}"); t0 = time.time()
    groups = []
    ff = ["--codemod-include", "pixee:python/use-set-literal,pixee:python/invert-boolean-check,pixee:python/unused-imports,pixee:python/secure-random"]
    sast = ["--sonar-issues-json", "{dir}/sonar.json"]
    for g in range(2 if tier == "quick" else 12):
        files = project(rnd, rnd.choice((16, 24, 40)))
        for mode, argv in (("find-and-fix", ff), ("sast", sast)):
            cases = []
            for k in range(6 if tier == "quick" else 16):
                cases.append({"files": files, "argv": argv, "w": rnd.choice((1, 2, 4, 16)), "delay_seed": rnd.randint(0, 10**6), "hashseed": rnd.choice((0, 1, 2, 3, 4)), "order_seed": rnd.randint(0, 10**6), "mode": mode})
            groups.append(cases)
    flat = [c for g in groups for c in g]
    res = BB.pmap(run_one, flat, workers=7)
    viols = collections.defaultdict(list); sigs = set(); overlapped = 0; n = 0; i = 0
    for g in groups:
        outs = collections.defaultdict(list)
        for c in g:
            r = res[i]; i += 1
            if r["status"] != "ok" or r["rc"] != 0: continue
            n += 1
            ev = [e for e in r["trace"]["events"] if e["k"] in ("file_begin", "file_end")]
            sigs.add(hashlib.sha1(json.dumps([(e["k"], os.path.basename(e["path"]), e["cm"]) for e in ev]).encode()).hexdigest())
            mx = max((e["inflight"] for e in ev if e["k"] == "file_begin"), default=0)
            if mx > 1: overlapped += 1
            if mx > c["w"]: viols["max-workers-ignored"].append({"w": c["w"], "max_inflight": mx})
            if not all(e["main"] for e in r["trace"]["events"] if e["k"] == "ctx_mut"): viols["aggregates-mutated-off-main-thread"].append({})
            outs[hashlib.sha1((norm(r["report"], r["proj"]) + json.dumps(r["tree"], sort_keys=True)).encode()).hexdigest()].append(c)
        if len(outs) > 1:
            hs = [sorted({c["hashseed"] for c in cs}) for cs in outs.values()]
            only_hash = all(len(set(h)) >= 1 for h in hs) and not any(set(a) & set(b) for k, a in enumerate(hs) for b in hs[k + 1:])
            viols["hashseed-collection-order" if only_hash else "nondeterministic-output"].append({"mode": g[0]["mode"], "hashseeds_by_output": hs})
    known, _ = load_known(); new = 0
    for k, v in sorted(viols.items()):
        if ("C11", k) in known: print(f"KNOWN-FINDING: property=C11 {k} ({len(v)})")
        else: new += 1; print(f"VIOLATION property=C11 replay=- key={k} instances={len(v)} witness={json.dumps(v[0])[:200]}")
    print(f"C11 {tier}: {'violated' if new else 'held'}; executions={n} distinct_schedule_signatures={len(sigs)} executions_with_overlap={overlapped} wall={round(time.time()-t0,1)}s")
    return 1 if new else 0

if __name__ == "__main__":
    sys.exit(main())
