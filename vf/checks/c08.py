"""PROTOTYPE C08: refactoring codemods preserve observable behaviour (differential execution of generated program families)."""
import base64, collections, concurrent.futures as cf, itertools, json, os, random, subprocess, sys, tempfile, time
from vf import env
from vf.pool import Pool
from vf.runner import Violation, load_known
b64 = lambda b: base64.b64encode(b).decode(); unb = base64.b64decode

def driver(sig, body_expr, rows, pre=""):
    return f"{pre}def f({sig}):\n    return {body_expr}\nROWS = {rows!r}\nfor r in ROWS:\n    try: print(repr(f(*r)))\n    except Exception as e: print(type(e).__name__)\n"

def fam_startswith():
    calls = ["a.startswith(x)", "a.startswith(y)", "a.startswith('a')", "a.startswith(t)", "a.startswith(('a','b'))", "b.startswith(x)", "a.endswith(x)", "a.endswith(y)"]
    tm = {"A_or_B": "{0} or {1}", "A_or_B_or_C": "{0} or {1} or {2}", "c_or_A_or_B": "c or {0} or {1}", "A_or_B_and_c": "{0} or {1} and c", "c_and_A_or_B": "c and {0} or {1}", "paren(A_or_B)_and_c": "({0} or {1}) and c", "not_A_or_B": "not {0} or {1}", "A_or_B_and_C": "{0} or {1} and {2}", "ternary": "{0} or {1} if c else d"}
    plain = [("abc", "abc", "a", "b", "zz", True, False), ("abc", "xbc", "z", "b", "q", False, True), ("", "", "", "q", "", True, True), ("ba", "ab", "a", "b", "b", True, True)]
    tup = [("abc", "abc", "a", "b", ("a", "z"), True, False), ("abc", "xbc", "z", "b", ("q",), False, True)]
    for tn, t in tm.items():
        n = t.count("{")
        combos = list(itertools.permutations(calls, n))
        for cs in combos[:: max(1, len(combos) // 12)]:
            uses_t = any("(t)" in c for c in cs)
            yield ("pixee:python/combine-startswith-endswith", f"startswith/{tn}", "tuple-valued-name" if uses_t else "plain", driver("a, b, x, y, t, c, d", t.format(*cs), tup if uses_t else plain))
def fam_isinstance():
    calls = ["isinstance(a, int)", "isinstance(a, str)", "isinstance(a, (float, bytes))", "isinstance(a, T2)", "isinstance(b, int)", "issubclass(a, int)", "issubclass(a, str)"]
    tm = {"A_or_B": "{0} or {1}", "A_or_B_or_C": "{0} or {1} or {2}", "A_or_B_and_c": "{0} or {1} and c", "c_and_A_or_B": "c and {0} or {1}", "paren(A_or_B)_and_c": "({0} or {1}) and c", "A_or_B_and_C": "{0} or {1} and {2}"}
    rows = [(1, "s", True, False), ("s", 1, False, True), (1.5, None, True, True), (int, str, True, True), (bool, 1, False, True)]
    for tn, t in tm.items():
        n = t.count("{"); combos = list(itertools.permutations(calls, n))
        for cs in combos[:: max(1, len(combos) // 10)]:
            yield ("pixee:python/combine-isinstance-issubclass", f"isinstance/{tn}", "tuple-valued-name" if any("T2" in c for c in cs) else "plain", driver("a, b, c, d", t.format(*cs), rows, pre="T2 = (int, str)\n"))
def fam_invert():
    ops = ["==", "!=", "<", ">", "<=", ">=", "in", "not in", "is", "is not"]
    VAL = {"plain": [(1, 2, 3), (2, 2, 2), (3, 2, 1), (1, 1, 2)], "containers": [(1, [1, 2], [[1, 2]]), ("a", "abc", ["abc"]), (2, (1,), ((1,),))], "unordered": [(float("nan"), 1.0, 2.0), ({1}, {1, 2}, {3})], "nonbool": [(1, 0, 2), ("x", "", None)]}
    def rows(cls): return VAL[cls]
    for o in ops:
        for cls in (("plain", "unordered") if o in ("<", ">", "<=", ">=") else (("containers",) if o in ("in", "not in") else ("plain",))):
            pre = "" 
            yield ("pixee:python/invert-boolean-check", f"invert/not_a_{o.replace(' ', '_')}_b", cls, driver("a, b, c", f"not a {o} b", rows(cls)).replace("float('nan')", "float('nan')"))
            yield ("pixee:python/invert-boolean-check", f"invert/c_and_not_a_{o.replace(' ', '_')}_b", cls, driver("a, b, c", f"bool(c) and not a {o} b", rows(cls)))
    for o1, o2 in itertools.product(["==", "<", "!="], ["==", "<", ">="]):
        yield ("pixee:python/invert-boolean-check", "invert/chain", "plain", driver("a, b, c", f"not a {o1} b {o2} c", rows("plain")))
    for t in ("is True", "is False"):
        yield ("pixee:python/invert-boolean-check", f"invert/{t.replace(' ', '_')}", "bool", driver("a, b, c", f"not a {t}", [(True, 0, 0), (False, 0, 0)]))
        yield ("pixee:python/invert-boolean-check", f"invert/{t.replace(' ', '_')}", "nonbool", driver("a, b, c", f"not a {t}", rows("nonbool")))
def fam_generator():
    for fn in ("any", "all", "sum", "min", "max"):
        yield ("pixee:python/use-generator", f"generator/{fn}", "pure", f"def f(xs):\n    return {fn}([x * 2 for x in xs])\nfor xs in ([1, 2, 3], [0, 0], [5]):\n    print(f(xs))\n")
        yield ("pixee:python/use-generator", f"generator/{fn}", "side-effecting-element", f"def g(x):\n    print('eval', x)\n    return x\ndef f(xs):\n    return {fn}([g(x) for x in xs])\nfor xs in ([1, 0, 3], [0, 2], [5]):\n    print(f(xs))\n")
def fam_misc():
    yield ("pixee:python/use-set-literal", "set-literal", "plain", "print(sorted(set([3, 1, 2, 1])))\nprint(set([]))\nx = set(['a'])\nx.add('b')\nprint(sorted(x))\n")
    yield ("pixee:python/use-set-literal", "set-literal", "shadowed-set", "def set(x):\n    return 'shadow'\nprint(set([1, 2]))\n")
    for used in (True, False):
        for test in ("x", "not x", "x is None", "x == 3", "x != 3"):
            yield ("pixee:python/use-walrus-if", f"walrus/{test.replace(' ', '_')}", "used-later" if used else "unused", f"def val():\n    print('val called')\n    return 3\ndef f():\n    x = val()\n    if {test}:\n        print('yes')\n    else:\n        print('no')\n" + ("    print('x', x)\n" if used else "") + "f()\n")
    yield ("pixee:python/remove-unnecessary-f-str", "fstr", "plain", "print(f'hello')\nprint(f\"a\" 'b')\nprint(f'{{braces}}')\nprint(rf'raw\\n')\n")
    for v in ("len", "(lambda: 1)", "int", "3", "None", "type('C', (), {'__call__': lambda s: 1})()"):
        yield ("pixee:python/fix-hasattr-call", "hasattr-call", "plain", f"v = {v}\nprint(hasattr(v, '__call__'))\n")
    yield ("pixee:python/fix-hasattr-call", "hasattr-call", "instance-attr-call", "class C: pass\nv = C()\nv.__call__ = lambda: 1\nprint(hasattr(v, '__call__'))\n")
    LOG = "import logging, sys\nlogging.basicConfig(stream=sys.stdout, level=logging.DEBUG, format='%(levelname)s:%(message)s')\n"
    yield ("pixee:python/fix-deprecated-logging-warn", "logging-warn", "plain", LOG + "logging.warn('careful %s', 1)\nlog = logging.getLogger('x')\nlog.warn('again')\n")
    for expr, cls in (("'a %s' % name", "percent-one"), ("'a %s %d' % (name, n)", "percent-tuple"), ("'v: ' + name", "plus"), ("'v: ' + name + ' end'", "plus-chain"), ("'100%% %s' % name", "percent-escape"), ("'t %s' % tup", "percent-tuple-valued-name")):
        yield ("pixee:python/lazy-logging", "lazy-logging/" + cls, cls, LOG + f"name = 'bob'\nn = 3\ntup = (1,)\nlogging.info({expr})\nlogging.getLogger('q').error({expr})\n")
    yield ("pixee:python/fix-deprecated-abstractproperty", "abc", "plain", "import abc\nclass A(abc.ABC):\n    @abc.abstractproperty\n    def p(self): ...\n    @abc.abstractclassmethod\n    def c(cls): ...\n    @abc.abstractstaticmethod\n    def s(): ...\nclass B(A):\n    p = 1\n    @classmethod\n    def c(cls): return 'c'\n    @staticmethod\n    def s(): return 's'\nb = B()\nprint(b.p, B.c(), B.s())\ntry:\n    A()\nexcept TypeError:\n    print('abstract')\n")
    yield ("pixee:python/fix-file-resource-leak", "file-leak", "plain", "def w():\n    f = open('t.txt', 'w')\n    f.write('hello')\n    f.flush()\n    g = open('t.txt')\n    data = g.read()\n    print(data)\nw()\nprint(open('t.txt').read())\n")
    yield ("pixee:python/bad-lock-with-statement", "lock", "plain", "import threading\ndef f():\n    with threading.Lock():\n        print('in lock')\n    with threading.RLock() as l:\n        print(type(l).__name__ != '')\nf()\n")
    yield ("pixee:python/remove-module-global", "module-global", "plain", "x = 1\nglobal x\nx = 2\nprint(x)\ndef f():\n    global x\n    x = 3\nf()\nprint(x)\n")
    yield ("pixee:python/unused-imports", "unused-imports", "plain", "import os, sys, json\nfrom collections import OrderedDict, defaultdict\nimport os.path\nd = defaultdict(int)\nd['a'] += 1\nprint(dict(d), os.sep == '/', sys.maxsize > 0)\n")
    yield ("pixee:python/remove-future-imports", "future-imports", "plain", "from __future__ import print_function, division, annotations\nprint(3 / 2)\ndef f(a: int) -> str: return str(a)\nprint(f.__annotations__)\n")
    yield ("pixee:python/order-imports", "order-imports", "plain", "import sys\nimport os\nfrom collections import defaultdict, OrderedDict\nimport json\nprint(os.sep, sys.maxsize > 0, json.dumps(1), defaultdict, OrderedDict)\n")
    for q, cls in (("\"SELECT name FROM t WHERE name = '\" + n + \"'\"", "plus"), ("\"SELECT name FROM t WHERE name = '%s'\" % n", "percent"), ("f\"SELECT name FROM t WHERE name = '{n}'\"", "fstring"), ("\"SELECT name FROM t WHERE name = '{}'\".format(n)", "format"), ("\"SELECT name FROM t WHERE name = '\" + n + \"' AND id > 0\"", "plus-tail")):
        yield ("pixee:python/sql-parameterization", "sql/" + cls, cls, f"import sqlite3\ndef q(n):\n    c = sqlite3.connect(':memory:')\n    cur = c.cursor()\n    cur.execute('CREATE TABLE t (id INTEGER, name TEXT)')\n    cur.execute(\"INSERT INTO t VALUES (1, 'bob')\")\n    cur.execute(\"INSERT INTO t VALUES (2, 'al')\")\n    cur.execute({q})\n    return cur.fetchall()\nfor n in ('bob', 'al', 'nobody'):\n    print(q(n))\n")

FAMS = [fam_startswith, fam_isinstance, fam_invert, fam_generator, fam_misc]

def runprog(src):
    with tempfile.TemporaryDirectory() as d:
        p = os.path.join(d, "p.py"); open(p, "w").write(src)
        try: r = subprocess.run([env.PY, "-I", "-S", p], capture_output=True, text=True, timeout=10, cwd=d, env={"PYTHONHASHSEED": "0", "PATH": os.environ.get("PATH", "")})
        except subprocess.TimeoutExpired: return None
        err = r.stderr.strip().splitlines()[-1].split(":")[0] if r.returncode else ""
        return (r.returncode, r.stdout, err)

def main():
    tier = os.environ.get("VERIF_TIER") or (sys.argv[sys.argv.index("--tier") + 1] if "--tier" in sys.argv else "quick")
    seed = int(os.environ.get("VERIF_SEED", "0")); t0 = time.time(); rnd = random.Random(f"C08:{seed}")
    cases = [c for f in FAMS for c in f()]
    if tier == "quick":
        by = collections.defaultdict(list)
        for c in cases: by[(c[0], c[1], c[2])].append(c)
        cases = [x for k, v in sorted(by.items()) for x in rnd.sample(v, min(3, len(v)))]
    jobs = [{"id": f"p{i}", "files": {"code.py": b64(c[3].encode())}, "argv": ["{proj}", "--output", "{out}", "--codemod-include", c[0]], "monitors": {"snap": False, "pipe": False}} for i, c in enumerate(cases)]
    pool = Pool(); res = pool.map(jobs, timeout=300); pool.close()
    pairs = []
    for c, r in zip(cases, res):
        if r.get("status") != "ok" or r["runs"][0]["rc"] != 0: continue
        after = unb(r["runs"][0]["tree"]["code.py"][2:]).decode("utf-8", "replace")
        if after != c[3]: pairs.append((c, after))
    with cf.ThreadPoolExecutor(14) as ex:
        outs = list(ex.map(lambda p: (runprog(p[0][3]), runprog(p[1])), pairs))
    viols = collections.defaultdict(list); n = 0; inconcl = 0; fired = collections.Counter()
    for (c, after), (o1, o2) in zip(pairs, outs):
        if o1 is None or o2 is None: inconcl += 1; continue
        n += 1; fired[c[0]] += 1
        if o1 != o2:
            viols[f"{c[0].split('/')[1]}/{c[1]}/{c[2]}"].append({"before": c[3], "after": after, "out_before": o1, "out_after": o2})
    known, _ = load_known(); new = 0
    for k, v in sorted(viols.items()):
        if ("C08", k) in known: print(f"KNOWN-FINDING: property=C08 {k} ({len(v)})")
        else: new += 1; print(f"VIOLATION property=C08 replay=- key={k} instances={len(v)}")
    print(f"C08 {tier}: {'violated' if new else 'held'}; programs={len(cases)} changed={len(pairs)} compared={n} inconclusive={inconcl} codemods_fired={len(fired)} wall={round(time.time()-t0,1)}s")
    print("never fired:", sorted({c[0] for c in cases} - set(fired)))
    return 1 if new else 0

if __name__ == "__main__":
    sys.exit(main())
