"""C08: refactoring codemods preserve observable behaviour.

Deciding step: differential execution. Each generated closed, deterministic program P is rewritten by the real CLI run of codemod K
(H-pipe records which K changed the file); P and run_K(P) are then each executed in a child interpreter (python -I -S, PYTHONHASHSEED=0,
scratch cwd, 10 s watchdog -> inconclusive) and (stdout, exception type, exit status) are compared.
A divergence is attributed to a mechanism key  <codemod>/<shape class>/<value class>  built from generator labels only."""
import base64, collections, concurrent.futures as cf, itertools, json, os, random, subprocess, sys, tempfile, time
from vf import env
from vf.runner import Violation, finish, tier_seed, run_jobs, budget_scale
b64 = lambda b: base64.b64encode(b).decode(); unb = base64.b64decode
from vf.families import FAMS, C, PX, all_cases

def runprog(src):
    with tempfile.TemporaryDirectory(prefix="vf_c08_") as d:
        p = os.path.join(d, "p.py"); open(p, "w", encoding="utf-8").write(src)
        try: r = subprocess.run([env.PY, "-I", "-S", p], capture_output=True, text=True, timeout=10, cwd=d, env={"PYTHONHASHSEED": "0", "PATH": "/usr/bin:/bin"})
        except subprocess.TimeoutExpired: return None
        err = r.stderr.strip().splitlines()[-1].split(":")[0] if r.returncode and r.stderr.strip() else ""
        return (r.returncode, r.stdout, err)

def job_of(i, c):
    return {"id": f"p{i}", "files": {"code.py": b64(c["src"].encode())}, "argv": ["{proj}", "--output", "{out}", "--codemod-include", c["cid"]], "monitors": {"snap": False}, "case": c}

def key_of(c):
    return f"{c['cid'].split('/')[1]}/{c['shape']}/{c['vclass']}"

def compare(c, after):
    o1, o2 = runprog(c["src"]), runprog(after)
    return o1, o2

def main():
    tier, seed = tier_seed(); t0 = time.time(); rnd = random.Random(f"C08:{seed}")
    full = tier != "quick"
    cases = all_cases(rnd, full)
    if not full:
        by = collections.defaultdict(list)
        for c in cases: by[(c["cid"], c["shape"], c["vclass"])].append(c)
        cases = [x for k, v in sorted(by.items()) for x in rnd.sample(v, min(3, len(v)))]
    jobs = [job_of(i, c) for i, c in enumerate(cases)]
    res = run_jobs(jobs, timeout=300)
    pairs = []; inconcl = 0; counters = collections.Counter(); unchanged = collections.Counter()
    for j, r in zip(jobs, res):
        c = j["case"]
        if r.get("status") != "ok": inconcl += 1; continue
        run = r["runs"][0]
        for k, n in (run.get("counters") or {}).items(): counters[k] += n
        if run["rc"] != 0 or run["exc"]: inconcl += 1; continue
        after = unb(run["tree"]["code.py"][2:]).decode("utf-8", "replace")
        rewritten = any(e["k"] == "pipe" and e["before"] != e["after"] for e in run["trace"])
        if after != c["src"] and rewritten: pairs.append((j, after))
        else: unchanged[c["cid"]] += 1
    # second wave: programs in which the codemod rewrote several lines are run again with ONE of those lines excluded (--path-exclude code.py:N):
    # a partially applied refactoring must preserve behaviour just the same
    from vf.runner import line_filter_followups
    rnd_f = random.Random(f"C08:followup:{seed}")
    by_id = {j["id"]: (j, r) for j, r in zip(jobs, res)}
    more = []
    for j, after in pairs:
        for j2 in line_filter_followups(j, by_id[j["id"]][1], rnd_f, per_job=2):
            c2 = dict(j["case"]); c2["shape"] = c2["shape"] + "/one-line-excluded"; j2["case"] = c2; more.append(j2)
    if len(more) > (150 if not full else 1500): more = rnd_f.sample(more, 150 if not full else 1500)
    res2 = run_jobs(more, timeout=300) if more else []
    for j, r in zip(more, res2):
        if r.get("status") != "ok" or r["runs"][0]["rc"] != 0 or r["runs"][0]["exc"]: inconcl += 1; continue
        after = unb(r["runs"][0]["tree"]["code.py"][2:]).decode("utf-8", "replace")
        if after != j["case"]["src"]: pairs.append((j, after))
    with cf.ThreadPoolExecutor(int(os.environ.get("VF_WORKERS", "14"))) as ex:
        outs = list(ex.map(lambda p: compare(p[0]["case"], p[1]), pairs))
    viols = []; nontrivial = set(); fired = collections.Counter(); samples = []; by_shape = collections.Counter(); ndis = 0
    for (j, after), (o1, o2) in zip(pairs, outs):
        c = j["case"]
        if o1 is None or o2 is None: inconcl += 1; continue
        nontrivial.add((c["cid"], c["src"], j.get("excluded_line"))); fired["fired:" + c["cid"]] += 1; by_shape[key_of(c)] += 1
        if o1 != o2:
            ndis += 1
            viols.append(Violation("C08", key_of(c), f"{c['cid']} template {c['template']}: original -> {o1!r:.200}; rewritten -> {o2!r:.200}",
                                   {"codemod": c["cid"], "template": c["template"], "before": c["src"], "after": after, "observed_before": o1, "observed_after": o2}, jobs=[{k: v for k, v in j.items()}]))
        elif len(samples) < 4 and len(o1[1]) > 10 and c["cid"] not in {s["codemod"] for s in samples}:
            samples.append({"codemod": c["cid"], "shape": c["shape"], "value_class": c["vclass"], "before": c["src"], "after": after, "observation": o1})
    # a partially applied rewrite of a program whose FULL rewrite already diverges shows the same mechanism: it is keyed like the full one
    base_div = {(x.witness["codemod"], x.witness["before"]) for x in viols if not x.key.split("/")[-2:-1] == ["one-line-excluded"] and "/one-line-excluded/" not in x.key}
    for x in viols:
        if "/one-line-excluded/" in x.key and (x.witness["codemod"], x.witness["before"]) in base_div: x.key = x.key.replace("/one-line-excluded/", "/")
    never = sorted({c["cid"] for c in cases} - {k[6:] for k in fired})
    stats = dict(fired); stats.update({"programs_generated": len(cases), "programs_rewritten": len(pairs), "programs_left_unchanged": sum(unchanged.values()), "codemods_never_fired": never})
    return finish("C08", "translation_validation", tier, seed, t0, evaluations=len(cases), nontrivial=nontrivial, violations=viols, min_nontrivial=60, counters=counters, deciding_counters=("pipe_libcst",),
                  inconclusive_cases=inconcl, samples=samples, stats=stats, module=__name__,
                  extra={"programs": len(nontrivial), "disagreements_checked": ndis, "compared_by_shape_and_value_class": dict(by_shape)},
                  required={"refactoring codemods that rewrote >=1 program (>=15)": 1 if len(fired) >= 15 else 0},
                  rule="generated program families per refactoring codemod (boolean templates x call kinds x value classes; comparison operators, chains, bool literals; comprehension consumers; walrus scopes; logging formats; abc; file/lock with; imports; sqlite queries); non-trivial = the codemod changed the program and both executions terminated; distinct by (codemod, program text)",
                  assumptions=["observation = (exit status, stdout, exception type on the last stderr line) of `python -I -S` with PYTHONHASHSEED=0 in a scratch cwd", "only the generated families are covered: 'for all programs' is out of reach for runtime monitoring"])

def replay(art):
    out = []
    for j in art.get("jobs") or []:
        r = run_jobs([j], timeout=300)[0]
        if r.get("status") != "ok": continue
        after = unb(r["runs"][0]["tree"]["code.py"][2:]).decode("utf-8", "replace"); c = j["case"]
        if after == c["src"]: print("codemod no longer changes the program"); continue
        o1, o2 = compare(c, after)
        print("before:", o1); print("after: ", o2)
        if o1 is not None and o2 is not None and o1 != o2: out.append(Violation("C08", key_of(c), "behaviour differs", {}))
    return out

if __name__ == "__main__":
    sys.exit(main())
