"""C19: regex and XML pipelines edit only their targets (plug-in codemods through run())."""
import base64, collections, json, os, random, re, sys
import xml.parsers.expat
from vf.runner import run_check, Violation
from vf import oracles as O
b64 = lambda b: base64.b64encode(b).decode(); unb = base64.b64decode

def infoset(text):
    """(events) with whitespace-only text dropped and other text stripped; CDATA content kept as text; doctype (name, pub, sys)"""
    ev = []; buf = []; incd = [False]
    p = xml.parsers.expat.ParserCreate()
    def flush():
        t = "".join(buf); buf.clear()
        if t.strip(): ev.append(("text", " ".join(t.split())))
    def start(n, a): flush(); ev.append(("start", n, tuple(sorted(a.items()))))
    def end(n): flush(); ev.append(("end", n))
    def chars(d): buf.append(d)
    def comment(d): flush(); ev.append(("comment", d.strip()))
    def pi(t, d): flush(); ev.append(("pi", t, d.strip()))
    def doctype(name, sysid, pubid, has_internal): ev.append(("doctype", name, pubid, sysid))
    p.StartElementHandler = start; p.EndElementHandler = end; p.CharacterDataHandler = chars; p.CommentHandler = comment; p.ProcessingInstructionHandler = pi; p.StartDoctypeDeclHandler = doctype
    p.Parse(text.encode("utf-8"), True); flush()
    return ev

WORDS = ["alpha", "beta foo", "foo", "gamma", "x=foo;y=foo", "FOO", "barfoo bar", "", "  foo  ", "délta foo", "http://a.example/x", "see https://b.example and http://c.example", "secure=TRUE; secure=true", "fo",
         "page\x0cfoo break", "sep\u2028foo"]      # a form feed / a unicode line separator inside a line: an ordinary character, not a line end (editors, SAST tools and patch count lines by \n)
def real_lines(t, keepends=True):
    """lines as editors, SAST tools and patch(1) count them: ended by \n, \r\n or \r only"""
    out = [x for x in re.split(r"(?<=\n)|(?<=\r)(?!\n)", t) if x]
    return out if keepends else [x.rstrip("\r\n") for x in out]
def gen_text(rnd):
    n = rnd.randint(1, 8); nl = rnd.choice(("\n", "\n", "\r\n"))
    lines = [rnd.choice(WORDS) for _ in range(n)]
    return ("\ufeff" if rnd.random() < 0.2 else "") + nl.join(lines) + (nl if rnd.random() < 0.6 else "")      # (a byte order mark in front of line 1 is content like any other: it stays)
def gen_xml(rnd):
    parts = ['<?xml version="1.0" encoding="utf-8"?>\n']
    dt = rnd.choice(("", "", "<!DOCTYPE root>\n", '<!DOCTYPE root SYSTEM "r.dtd">\n', '<!DOCTYPE root PUBLIC "-//X//Y" "r.dtd">\n'))
    parts.append(dt)
    if rnd.random() < 0.3: parts.append("<?style type=\"x\"?>\n")
    if rnd.random() < 0.4: parts.append("<!-- top -->\n")
    def el(depth):
        name = rnd.choice(("el", "el", "other", "ns:item"))
        attrs = "".join(f' {k}="{v}"' for k, v in rnd.sample([("k", "v"), ("id", "1"), ("ns:a", "b&amp;c"), ("z", "é")], rnd.randint(0, 2)))
        if depth > 2 or rnd.random() < 0.3:
            body = rnd.choice(("", "text", "a &amp; b &lt; c", "<![CDATA[raw <b> & stuff]]>", "é ✓", "<!-- c -->mixed"))
            return f"<{name}{attrs}>{body}</{name}>" if body or rnd.random() < 0.5 else f"<{name}{attrs}/>"
        kids = "".join("\n" + "  " * (depth + 1) + el(depth + 1) for _ in range(rnd.randint(1, 3)))
        return f"<{name}{attrs}>{kids}\n{'  ' * depth}</{name}>"
    kids = "".join("\n  " + el(1) for _ in range(rnd.randint(1, 4)))
    parts.append(f'<root xmlns:ns="urn:n">{kids}\n</root>\n')
    return "".join(parts)

def plan(tier, seed):
    rnd = random.Random(f"C19:{seed}"); jobs = []
    base = ["{proj}", "--output", "{out}", "--path-include", "*.txt,*.xml"]
    for k in range(40 if tier == "quick" else 600):
        files = {f"t{i}.txt": gen_text(rnd) for i in range(rnd.randint(1, 3))}
        pat, repl = rnd.choice(((r"foo", "bar"), (r"\bfoo\b", "X"), (r"^foo$", "whole"), (r"fo+", ""), (r"(x)=(\w+)", r"\2=\1"),
                                # normalising pairs: the replacement is itself matched by the pattern, so a line can match and stay byte-identical
                                (r"https?://", "https://"), (r"(?i)secure=(true|false)", "secure=true"), (r"(?i)foo", "foo"), (r"x*", ""), (r"fo*", "fo")))
        dry = rnd.random() < 0.3
        if rnd.random() < 0.5:
            jobs.append({"id": f"rx{k}", "kind": "regex", "pat": pat, "repl": repl, "texts": files, "dry": dry, "files": {n: b64(t.encode()) for n, t in files.items()}, "plugins": [{"kind": "regex", "name": "rx", "pattern": pat, "replacement": repl}],
                         "argv": base + ["--codemod-include", "vf:python/rx"] + (["--dry-run"] if dry else []), "monitors": {"snap": False}, "want_before": True})
        else:
            findings = []
            for n, t in files.items():
                for ln in range(1, len(real_lines(t)) + 1):
                    if rnd.random() < 0.5: findings.append({"file": n, "line": ln, "id": f"F-{n}-{ln}"})
            jobs.append({"id": f"srx{k}", "kind": "sast-regex", "pat": pat, "repl": repl, "texts": files, "dry": dry, "findings": findings, "files": {n: b64(t.encode()) for n, t in files.items()},
                         "plugins": [{"kind": "sast-regex", "name": "srx", "pattern": pat, "replacement": repl, "findings": findings}], "argv": base + ["--codemod-include", "vfsast:python/srx"] + (["--dry-run"] if dry else []), "monitors": {"snap": False}, "want_before": True})
    for k in range(40 if tier == "quick" else 600):
        doc = gen_xml(rnd)
        try: infoset(doc)
        except Exception: continue
        dry = rnd.random() < 0.2
        if rnd.random() < 0.6: pl = {"kind": "xml-attr", "name": "xa", "map": {"el": {"k": "NEW", "added": "1"}}}; cm = "vf:python/xa"
        else: pl = {"kind": "xml-new", "name": "xn", "elements": [{"name": "added", "parent": "root", "content": "c", "attributes": {"q": "1"}}]}; cm = "vf:python/xn"
        # more documents through the same pipeline object, before and after the judged one: documents without a target (left alone), malformed ones (fail), other targets
        docs = {"d.xml": doc}
        if k % 2:
            pad = "".join(f"  <other n=\"{i}\">padding text {i} " + "x" * rnd.randint(0, 60) + "</other>\n" for i in range(rnd.randint(1, 30)))
            pool_ = [("no-target", f"<?xml version=\"1.0\"?>\n<root>\n{pad}</root>\n" if pl["kind"] == "xml-attr" else f"<?xml version=\"1.0\"?>\n<top>\n{pad}</top>\n"), ("malformed", f"<root>\n{pad}  <el k=\"v\">unclosed\n"),
                     ("short-target", "<root><el k=\"v\"/></root>\n")]
            for name in rnd.sample(["a_first.xml", "b_second.xml", "e_after.xml", "z_last.xml"], rnd.randint(1, 3)):
                docs[name] = rnd.choice(pool_)[1]
        jobs.append({"id": f"xml{k}", "kind": pl["kind"], "doc": doc, "docs": docs, "dry": dry, "files": {n_: b64(d_.encode()) for n_, d_ in docs.items()}, "plugins": [pl], "argv": base + ["--codemod-include", cm] + (["--dry-run"] if dry else []), "monitors": {"snap": False}, "want_before": True})
    # SAST-driven XML: sibling target elements at the SAME indentation on different lines, findings (exact line and column of '<', or line only) on a subset
    for k in range(30 if tier == "quick" else 400):
        n = rnd.randint(3, 6); indent = "  " * rnd.randint(1, 2)
        lines = ['<?xml version="1.0" encoding="utf-8"?>', "<root>"]
        els = []
        for i in range(n):
            if rnd.random() < 0.3: lines.append(f"{indent}<other id=\"{i}\"/>")
            lines.append(f"{indent}<el k=\"v{i}\">t{i}</el>"); els.append(len(lines))
        lines.append("</root>")
        doc = "\n".join(lines) + "\n"
        sub = sorted(rnd.sample(els, rnd.randint(0, len(els) - 1)))
        line_only = rnd.random() < 0.4
        findings = [{"file": "d.xml", "line": ln, "col": (len(indent) + 1) if not line_only else 1, "ecol": len(indent) + 4, "id": f"F-{ln}"} for ln in sub]
        dry = rnd.random() < 0.2
        jobs.append({"id": f"sxml{k}", "kind": "sast-xml-attr", "doc": doc, "dry": dry, "targets": els, "reported": sub, "files": {"d.xml": b64(doc.encode())},
                     "plugins": [{"kind": "sast-xml-attr", "name": "sxa", "map": {"el": {"k": "NEW"}}, "findings": findings, "line_only": line_only}],
                     "argv": base + ["--codemod-include", "vfsast:python/sxa"] + (["--dry-run"] if dry else []), "monitors": {"snap": False}, "want_before": True})
    return jobs

def judge_sast_xml(job, run, css):
    v = []; st = collections.Counter(); nt = []
    w = {"case": job["id"], "kind": job["kind"], "doc": job["doc"], "reported_lines": job["reported"], "target_lines": job["targets"]}
    cs = css.get("d.xml"); after = unb(run["tree"]["d.xml"][2:]).decode("utf-8")
    got_lines = sorted(c["lineNumber"] for c in cs["changes"]) if cs else []
    if job["reported"]: nt.append(job["id"])
    st["sast_xml_cases"] += 1
    if got_lines != job["reported"]: v.append(Violation("C19", "sast-xml/changes-differ-from-findings", f"change entries on lines {got_lines}, findings on lines {job['reported']}", dict(w, after=after)))
    if not job["dry"]:
        edited = [i + 1 for i, (a, b) in enumerate(zip(job["doc"].splitlines(), after.splitlines())) if a != b and "<el" in a]
        alines = after.splitlines()
        edited = [ln for ln in job["targets"] if any('k="NEW"' in l for l in alines if f">t{job['targets'].index(ln)}<" in l)]
        if edited != job["reported"]: v.append(Violation("C19", "sast-xml/elements-edited-differ-from-findings", f"elements edited on lines {edited}, findings on lines {job['reported']}", dict(w, after=after)))
    elif run["tree"] != run["before_tree"]: v.append(Violation("C19", "dry-run-wrote/sast-xml-attr", "pipeline wrote in --dry-run", w))
    if cs:
        for c in cs["changes"]:
            ids = sorted(f["id"] for f in (c.get("findings") or []))
            if ids != [f"F-{c['lineNumber']}"] and c["lineNumber"] in job["reported"]: v.append(Violation("C19", "sast-xml/findings-of-change", f"line {c['lineNumber']}: change carries {ids}", w))
    return v, st, nt

def judge(job, res):
    v = []; st = collections.Counter(); nt = []
    run = res["runs"][0]; w = {"case": job["id"], "kind": job["kind"]}
    if run["rc"] != 0 or run["exc"]:
        v.append(Violation("C19", f"run-failed/{job['kind']}", f"rc={run['rc']} exc={run['exc']}", dict(w, log=run["log"][-500:]))); return v, st, nt
    css = {cs["path"]: cs for r in run["report"]["results"] for cs in r["changeset"]}
    if job["dry"] and run["tree"] != run["before_tree"]: v.append(Violation("C19", f"dry-run-wrote/{job['kind']}", "pipeline wrote in --dry-run", w))
    if job["kind"] == "sast-xml-attr": return judge_sast_xml(job, run, css)
    if job["kind"] in ("regex", "sast-regex"):
        for n, t in job["texts"].items():
            lines = real_lines(t); flines = {f["line"] for f in job.get("findings", []) if f["file"] == n}
            exp = []; exp_changes = []
            for i, l in enumerate(lines, 1):
                nl = re.sub(job["pat"], job["repl"], l) if (job["kind"] == "regex" or i in flines) else l
                exp.append(nl)
                if nl != l: exp_changes.append(i)
            after = unb(run["tree"][n][2:]).decode("utf-8") if not job["dry"] else None
            cs = css.get(n)
            if exp_changes: nt.append((job["id"], n))
            if after is not None and after != "".join(exp):
                v.append(Violation("C19", f"{job['kind']}/content-differs-from-model", "file content differs from per-line reference", dict(w, file=n, text=t, after=after, expected="".join(exp), pat=job["pat"])))
            got_lines = sorted(c["lineNumber"] for c in cs["changes"]) if cs else []
            if got_lines != exp_changes: v.append(Violation("C19", f"{job['kind']}/changes-differ-from-edits", f"changes {got_lines} vs edited lines {exp_changes}", dict(w, file=n, text=t)))
            if cs and job["kind"] == "sast-regex":
                for c in cs["changes"]:
                    ids = sorted(f["id"] for f in (c.get("findings") or [])); want = sorted(f["id"] for f in job["findings"] if f["file"] == n and f["line"] == c["lineNumber"])
                    if ids != want: v.append(Violation("C19", "sast-regex/findings-index", f"line {c['lineNumber']}: findings {ids} expected {want}", dict(w, file=n)))
            if cs and exp_changes:
                try:
                    got, _ = O.apply_unified(t, cs["diff"])
                    if not O.same_mod_final_newline(got, "".join(exp)): v.append(Violation("C19", f"{job['kind']}/diff-unfaithful", "diff does not reproduce the edit", dict(w, file=n)))
                except O.PatchError as ex: v.append(Violation("C19", f"{job['kind']}/diff-unfaithful", str(ex)[:100], dict(w, file=n, text=t, diff=cs["diff"])))
    else:
      for name, doc in sorted((job.get("docs") or {"d.xml": job["doc"]}).items()):
        cs = css.get(name); multi = "" if len(job.get("docs") or {}) <= 1 else "/several-documents"
        try: ib = infoset(doc)
        except Exception:
            # a document that was not well-formed before the run is out of the pipeline's reach: it must be left exactly as it was
            st["xml_malformed_inputs"] += 1
            if unb(run["tree"][name][2:]).decode("utf-8", "replace") != doc: v.append(Violation("C19", "xml/malformed-input-rewritten" + multi, name, dict(w, doc=doc)))
            if cs is not None: v.append(Violation("C19", "xml/changeset-for-malformed-input" + multi, name, dict(w, doc=doc)))
            continue
        if cs is None:
            st["xml_no_change"] += 1
            if unb(run["tree"][name][2:]).decode("utf-8", "replace") != doc: v.append(Violation("C19", "xml/changed-without-changeset" + multi, name, dict(w, doc=doc)))
            continue
        nt.append((job["id"], name))
        if job["dry"]: continue
        after = unb(run["tree"][name][2:]).decode("utf-8", "replace")
        try: ia = infoset(after)
        except Exception as ex:
            v.append(Violation("C19", "xml/output-not-well-formed" + multi, repr(ex)[:100], dict(w, file=name, doc=doc, after=after, documents=sorted(job.get("docs") or {})))); continue
        # remove targets from both sides
        def strip(ev):
            out = []
            skip = 0
            for e in ev:
                if job["kind"] == "xml-attr" and e[0] == "start" and e[1] == "el": e = ("start", "el", tuple(a for a in e[2] if a[0] not in ("k", "added")))
                if job["kind"] == "xml-new":
                    if e[0] == "start" and e[1] == "added": skip += 1; continue
                    if e[0] == "end" and e[1] == "added": skip -= 1; continue
                    if skip: continue
                out.append(e)
            return out
        sb, sa = strip(ib), strip(ia)
        if sb != sa:
            kinds = {x[0] for x in set(sb) ^ set(sa)} if True else set()
            diffs = [x for x in sb if x not in sa][:2] + [x for x in sa if x not in sb][:2]
            key = "xml/doctype-none-ids" if any(d[0] == "doctype" for d in diffs) else ("xml/cdata-escaped" if any(d[0] == "text" and ("&lt;" in d[1] or "&amp;" in d[1]) for d in diffs) else "xml/infoset-differs/" + "+".join(sorted({d[0] for d in diffs}))) + multi
            v.append(Violation("C19", key, f"non-target content changed: {diffs}", dict(w, doc=doc, after=after)))
    return v, st, nt

def main():
    return run_check("C19", "exploration", plan, judge, "plug-in codemods on the public regex/XML pipelines through run(): generated texts x patterns x findings, generated XML (DOCTYPE, CDATA, PIs, comments, namespaces, entities, mixed content) x attribute maps/new elements; non-trivial = an edit happened", 30, deciding_counters=("_apply",), timeout=300, module=__name__)

if __name__ == "__main__":
    sys.exit(main())
