"""C05: files changed == files selected by include/exclude (find-and-fix and SAST mode); nothing outside written."""
import base64, collections, json, os, random, re, sys
from vf.runner import run_check, Violation
b64 = lambda b: base64.b64encode(b).decode()
TRIG = b"# header\nx = set([1])\n"; NOTRIG = b"# header\nx = 1\n"   # the fixable construct sits on line 2 in both modes
SAST_SRC = b"import random\nrandom.random()\n"
SG_TRIG = b"import requests\nrequests.get('u', verify=False)\n"; SG_NOTRIG = b"import requests\nx = 1\n"   # a semgrep-detected find-and-fix codemod (requests-verify): the detector sees the same file list
def material(mode, trig):
    if mode == "sast": return SAST_SRC if trig else NOTRIG
    if mode == "semgrep": return SG_TRIG if trig else SG_NOTRIG
    return TRIG if trig else NOTRIG

def gmatch(pat, s):
    """fnmatch semantics: * crosses '/', ? one char, [..] class; whole string"""
    i = 0; rx = ""
    while i < len(pat):
        c = pat[i]
        if c == "*": rx += ".*"
        elif c == "?": rx += "."
        elif c == "[":
            j = pat.find("]", i + 1)
            if j == -1: rx += re.escape(c)
            else:
                body = pat[i + 1:j]; body = ("^" + body[1:]) if body.startswith("!") else body
                rx += "[" + body.replace("\\", "\\\\") + "]"; i = j
        else: rx += re.escape(c)
        i += 1
    return re.fullmatch(rx, s, flags=re.S) is not None

JUDGED_DEFAULT_EXCL = ["test/*", "tests/*", "build/*", "dist/*", "venv/*", ".venv/*", ".git/*", "*/site-packages/*"]
def spec(rel, include, exclude, sast):
    inc = [p.split(":")[0] for p in include] if include else ["*.py"]
    if not any(gmatch(p, rel) for p in inc): return False
    exc = [p for p in (exclude or []) if ":" not in p]
    if not exclude and not sast: exc = JUDGED_DEFAULT_EXCL
    return not any(gmatch(p, rel) for p in exc)

DIRS = ["", "pkg", "pkg/sub", "tests", "test", "build", "dist", "venv/lib", ".venv/x", ".git/hooks", "lib/site-packages/q", "src/app", "docs"]
def tree(rnd):
    files = {}
    for d in rnd.sample(DIRS, rnd.randint(4, 9)):
        for k in range(rnd.randint(1, 2)):
            name = rnd.choice(("a", "b", "mod", "util", "x_y")) + str(k) + rnd.choice((".py", ".py", ".py", ".txt", ".pyi"))
            files[(d + "/" if d else "") + name] = rnd.random() < 0.8
    return files
def patterns(rnd, files, line_no):
    rels = sorted(files)
    def one():
        f = rnd.choice(rels); parts = f.split("/")
        k = rnd.choice(("lit", "dir", "ext", "star", "q", "cls", "line", "deep", "basename"))
        return {"basename": parts[-1],      # a bare file name matches the file of that name at the top of the target only (the same name exists in several directories)
                "lit": f, "dir": (parts[0] + "/*") if len(parts) > 1 else "*.py", "ext": "*" + os.path.splitext(f)[1], "star": "*" + parts[-1][1:], "q": f[:-4] + "?" + f[-3:], "cls": f[:-4] + "[0-9]" + f[-3:],
                "line": f + ":" + str(line_no), "deep": "*/" + parts[-1]}[k]
    out = [one() for _ in range(rnd.randint(1, 3))]
    # the same glob once bare and once (or twice) with a :line suffix, in either order; duplicates of a pattern
    if rnd.random() < 0.35:
        g = rnd.choice([p for p in out if ":" not in p] or [rnd.choice(rels)])
        extra = [g + ":" + str(line_no)] + ([g + ":" + str(line_no + 40)] if rnd.random() < 0.4 else [])
        pos = rnd.randint(0, len(out))
        out = out[:pos] + extra + out[pos:]
        if g not in out: out.insert(rnd.randint(0, len(out)), g)
        if rnd.random() < 0.3: out.append(g)
    return out

def plan(tier, seed):
    rnd = random.Random(f"C05:{seed}"); jobs = []
    n = 150 if tier == "quick" else 1500
    for k in range(n):
        files = tree(rnd); sast = rnd.random() < 0.35
        mode = "sast" if sast else ("semgrep" if rnd.random() < 0.2 else "plain")
        target = rnd.choice(("abs", "abs", "rel", "dot", "symlink", "trailing-slash"))      # how the user spells the target directory
        inc = patterns(rnd, files, 2) if rnd.random() < 0.5 else None   # an include with :line restricts the file to that line (C13): name the trigger line
        exc = patterns(rnd, files, 1) if rnd.random() < 0.6 else None   # an exclude with :line must not exclude the file: name a line without a trigger
        # where the target sits: the path the user types (relative) or its absolute path may itself contain names the default or user patterns mention;
        # patterns are matched against paths RELATIVE to the target, so none of that may influence the selection
        under = rnd.choice((None, None, "build/app", "tests/fixtures/app", "lib/site-packages/pkg", "vendor/app", "venv/lib/app", "dist", "src/app")) if k % 3 == 0 else None
        if under:
            target = rnd.choice(("rel", "abs", "rel", "trailing-slash", "dotdot"))
            tp = under.split("/")
            for lst in (inc, exc):
                if lst is not None and rnd.random() < 0.6: lst.insert(rnd.randint(0, len(lst)), rnd.choice((tp[0] + "/*", "*/" + tp[-1] + "/*.py", under + "/*", "*" + tp[-1] + "*/m*.py")))
        fs = {}; 
        for rel, trig in files.items():
            fs[rel] = b64(material(mode, trig))
        # symlinks into outside tree
        up = "../" * (len(under.split("/")) if under else 1)
        fs["link_out.py"] = {"symlink": up + "outside/o.py"}; fs["linkdir"] = {"symlink": up + "outside/d"}
        outside = {"outside/o.py": b64(material(mode, True)), "outside/d/p.py": b64(material(mode, True))}
        argv = ["{proj}", "--output", "{out}"]
        rf = {}
        if sast:
            cands = [rel for rel, t in files.items() if t] + ["link_out.py", "linkdir/p.py"]
            rf["sonar.json"] = json.dumps({"hotspots": [{"rule": "python:S2245", "status": "OPEN", "component": "proj:" + rel, "textRange": {"startLine": 2, "endLine": 2, "startOffset": 0, "endOffset": 15}} for rel in cands]})
            argv += ["--sonar-hotspots-json", "{res}/sonar.json", "--codemod-include", "sonar:python/secure-random"]
        else: argv += ["--codemod-include", "pixee:python/requests-verify" if mode == "semgrep" else "pixee:python/use-set-literal"]
        if k % 2: argv += ["--max-workers", str(rnd.choice((2, 3, 4, 5, 8)))]      # the selection does not depend on how the work is spread over workers
        if inc: argv += ["--path-include", ",".join(inc)]
        if exc: argv += ["--path-exclude", ",".join(exc)]
        jobs.append({"id": f"t{k}", "files": fs, "outside": outside, "result_files": rf, "argv": argv, "include": inc, "exclude": exc, "sast": sast, "mode": mode, "target": target, "proj_under": under, "trig": files, "monitors": {"snap": False, "fs": True}})
    return jobs

DONTCARE = re.compile(r"(^|/)(conftest\.py|\.coverage.*)$|(^|/)(tests?|__tests?__)/")
def judge(job, res):
    v = []; st = collections.Counter(); nt = []
    run = res["runs"][0]
    if run["rc"] != 0 or run["exc"]:
        v.append(Violation("C05", "run-failed", f"rc={run['rc']} exc={run['exc']}", {"argv": job["argv"], "log": run["log"][-800:]})); return v, st, nt
    changed = set(); 
    for rel, trig in job["trig"].items():
        orig = "F:" + b64(material(job.get("mode") or ("sast" if job["sast"] else "plain"), trig))
        if run["tree"].get(rel) != orig: changed.add(rel)
    exp = {rel for rel, trig in job["trig"].items() if trig and rel.endswith(".py") and spec(rel, job["include"], job["exclude"], job["sast"])}
    sel = len(exp); unsel = sum(1 for rel, t in job["trig"].items() if t and rel not in exp)
    if sel and unsel: nt.append(job["id"])
    w = {"include": job["include"], "exclude": job["exclude"], "sast": job["sast"], "mode": job.get("mode"), "target_spelling": job.get("target"), "target_placed_under": job.get("proj_under"), "changed": sorted(changed), "expected": sorted(exp), "files": job["trig"]}
    for rel in sorted(changed - exp):
        top_default = not job["exclude"] and not job["sast"] and DONTCARE.search(rel) and not re.match(r"^(tests?)/", rel)
        if top_default: st["dontcare"] += 1; continue
        if not rel.endswith(".py") and job["include"]: st["dontcare_nonpy_included"] += 1; continue
        v.append(Violation("C05", "touched-unselected/" + ("sast" if job["sast"] else "find-and-fix"), f"{rel} rewritten but not selected", w))
    for rel in sorted(exp - changed):
        if not job["exclude"] and not job["sast"] and DONTCARE.search(rel): st["dontcare"] += 1; continue
        v.append(Violation("C05", "missed-selected/" + ("sast" if job["sast"] else "find-and-fix"), f"{rel} selected and fixable but untouched", w))
    out = run.get("outside_tree") or {}
    orig_out = job["outside"]
    for rel, spec_ in orig_out.items():
        if out.get(rel) != "F:" + spec_: v.append(Violation("C05", "outside-written", f"{rel} outside the target changed", w))
    for e in run["trace"]:
        if e["k"] == "fs":
            p = e["path"] if isinstance(e["path"], str) else e["path"][0]
            if "/outside/" in p or (run["proj"] not in p and "/out.codetf" not in p and "/tmp" not in p and "/stubbin" not in p and "/res/" not in p and "semgrep" not in p and "/dev/null" not in p):
                st["fs_event_elsewhere"] += 1
                if "/outside/" in p: v.append(Violation("C05", "outside-written", f"fs event {e['op']} on {p}", w))
    return v, st, nt

def main():
    return run_check("C05", "exploration", plan, judge, "random trees x include/exclude pattern lists, find-and-fix and SAST mode, symlinks into a sibling tree; non-trivial = tree has selected and unselected trigger files", 15, deciding_counters=("_apply",), timeout=300, module=__name__)

if __name__ == "__main__":
    sys.exit(main())
