"""JSON-lines worker: one job per line on stdin, one outcome per line on stdout (fd 3 dup'd)."""
import base64, contextlib, io, json, logging, os, shutil, sys, tempfile, traceback
from pathlib import Path

def main():
    out = os.fdopen(os.dup(1), "w", buffering=1)
    # everything the code under test prints goes to a buffer, never to the protocol pipe
    devnull = open(os.devnull, "w")
    os.dup2(devnull.fileno(), 1)
    base = Path(os.environ.get("VF_SCRATCH") or tempfile.mkdtemp(prefix="vf_w_")) / f"w{os.getpid()}"
    base.mkdir(parents=True, exist_ok=True)
    from vf import monitors as M
    from codemodder.codemodder import run
    n = 0
    for line in sys.stdin:
        line = line.strip()
        if not line: continue
        job = json.loads(line)
        if job.get("op") == "quit": break
        n += 1
        d = base / f"j{n}"
        res = {"id": job.get("id")}
        try:
            res.update(run_job(job, d, run, M))
        except BaseException as e:  # harness error, not a verdict
            res["status"] = "harness_error"; res["error"] = traceback.format_exc()[-2000:]
        finally:
            if not job.get("keep"):
                shutil.rmtree(d, ignore_errors=True)
        out.write(json.dumps(res) + "\n"); out.flush()
    shutil.rmtree(base, ignore_errors=True)

def materialise(root: Path, files: dict):
    for rel, spec in files.items():
        p = root / rel
        p.parent.mkdir(parents=True, exist_ok=True)
        if isinstance(spec, dict) and "symlink" in spec:
            os.symlink(spec["symlink"], p)
        else:
            p.write_bytes(base64.b64decode(spec))

def stat_tree(root: Path):
    out = {}
    for dp, dn, fn in os.walk(root, followlinks=False):
        for f in fn + dn:
            p = os.path.join(dp, f); st = os.lstat(p)
            out[os.path.relpath(p, root)] = [st.st_mode, st.st_mtime_ns, st.st_size]
    return out

def read_tree(root: Path):
    from vf.monitors import snapshot
    return snapshot(root)

def run_job(job, d: Path, run, M):
    under = job.get("proj_under") or "proj"            # where the target directory sits below the scratch directory (e.g. "build/app": the path the user types contains names that file patterns mention)
    proj = d / under; proj.mkdir(parents=True)
    materialise(proj, job.get("files", {}))
    for rel, spec in (job.get("outside") or {}).items():
        materialise(d, {rel: spec})
    resdir = d / "res"; resdir.mkdir()
    for name, text in (job.get("result_files") or {}).items():
        (resdir / name).write_text(text, encoding="utf-8")
    outp = d / "out.codetf"
    def sub(a):
        return a.replace("{proj}", str(proj)).replace("{out}", str(outp)).replace("{res}", str(resdir)).replace("{dir}", str(d))
    # how the user spells the target directory (only the positional "{proj}" argument is respelled; patterns keep the absolute path)
    spelling = job.get("target", "abs"); cwd0 = os.getcwd(); target = str(proj)
    if spelling == "rel": os.chdir(d); target = under
    elif spelling == "dot": os.chdir(proj); target = "."
    elif spelling == "dotdot": os.chdir(proj); target = "../" + proj.name
    elif spelling == "symlink": os.symlink(proj, d / "link"); target = str(d / "link")
    elif spelling == "trailing-slash": target = str(proj) + "/"
    job["_target"] = target
    argv = [target if a == "{proj}" else sub(a) for a in job["argv"]]
    saved_env = {}
    if job.get("stub_semgrep"):
        bind = d / "stubbin"; bind.mkdir()
        sp = bind / "semgrep"
        sp.write_text('#!/bin/sh\nout=""\nwhile [ $# -gt 0 ]; do if [ "$1" = "-o" ]; then out="$2"; shift; fi; shift; done\nprintf \'{"runs":[{"tool":{"driver":{"name":"Semgrep OSS"}},"results":[]}]}\' > "$out"\n')
        sp.chmod(0o755)
        saved_env["PATH"] = os.environ.get("PATH"); os.environ["PATH"] = str(bind) + os.pathsep + os.environ["PATH"]
    for k, v in (job.get("env") or {}).items():
        saved_env.setdefault(k, os.environ.get(k)); os.environ[k] = v
    try:
        return _run_repeats(job, d, run, M, proj, outp, argv)
    finally:
        os.chdir(cwd0)
        for k, v in saved_env.items():
            if v is None: os.environ.pop(k, None)
            else: os.environ[k] = v

def _run_repeats(job, d, run, M, proj, outp, argv):
    outcomes = []
    steps = job.get("steps")
    def sub2(a): return a.replace("{proj}", str(proj)).replace("{out}", str(outp)).replace("{res}", str(d / "res")).replace("{dir}", str(d))
    for rep_i in range(len(steps) if steps else job.get("repeat", 1)):
        if steps: argv = [job.get("_target", str(proj)) if a == "{proj}" else sub2(a) for a in steps[rep_i]]
        tr = M.Trace()
        buf = io.StringIO()
        rc = None; exc = None
        before_tree = read_tree(proj) if job.get("want_before") else None
        before_stat = stat_tree(proj) if job.get("want_stat") else None
        import contextlib as _cl
        from vf import plugins as _pl
        with (_pl.Registered(job["plugins"]) if job.get("plugins") else _cl.nullcontext()), M.Monitors(job.get("monitors") or {}, tr, proj):
            try:
                with contextlib.redirect_stdout(buf), contextlib.redirect_stderr(buf):
                    try:
                        rc = run(list(argv))
                    except SystemExit as e:
                        rc = e.code; exc = "SystemExit"
            except BaseException as e:
                exc = type(e).__name__ + ": " + str(e)[:500]
                buf.write(traceback.format_exc())
            finally:
                root = logging.getLogger()
                for h in list(root.handlers): root.removeHandler(h)
        report = None
        if outp.exists():
            try: report = json.loads(outp.read_text(encoding="utf-8"))
            except Exception as e: report = {"_unreadable": str(e)}
            outp.unlink()
        o = {"rc": rc, "exc": exc, "report": report, "tree": read_tree(proj), "log": buf.getvalue()[-20000:] if not job.get("full_log") else buf.getvalue(),
             "trace": tr.events if job.get("want_trace", True) else None, "counters": tr.counters, "before_tree": before_tree, "proj": str(proj)}
        if job.get("want_stat"): o["before_stat"] = before_stat; o["stat"] = stat_tree(proj)
        if job.get("outside"):
            o["outside_tree"] = {k: v for k, v in read_tree(d).items() if not k.startswith((job.get("proj_under") or "proj") + "/") and not k.startswith("res/")}
        outcomes.append(o)
    r = {"status": "ok", "runs": outcomes}
    return r

if __name__ == "__main__":
    main()
