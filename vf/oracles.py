"""Oracles: stdlib only (ast, symtable, builtins, re). PROTOTYPE."""
import ast, builtins, collections, re, symtable

def decode(b: bytes):
    """source bytes -> text the way Python reads a source file: BOM, else PEP 263 cookie, else UTF-8 (raises UnicodeDecodeError / SyntaxError-free LookupError as UnicodeDecodeError)"""
    import io, tokenize
    try: enc, _ = tokenize.detect_encoding(io.BytesIO(b).readline)
    except SyntaxError: enc = "utf-8"
    if enc == "utf-8": return b.decode("utf-8-sig")
    return b.decode(enc)

def parses(text):
    """text: str or source bytes. returns ('compile'|'parse'|None, error)"""
    try:
        compile(text, "<f>", "exec", dont_inherit=True); return "compile", None
    except SyntaxError as e:
        try:
            ast.parse(text); return "parse", str(e)
        except SyntaxError as e2:
            return None, str(e2)
    except (ValueError, LookupError) as e:  # NUL bytes, unknown codec in a cookie
        return None, str(e)

_BUILTINS = set(dir(builtins)) | {"__file__", "__name__", "__doc__", "__builtins__", "__spec__", "__loader__", "__package__", "__path__", "__class__", "__annotations__", "__dict__", "__module__", "__qualname__", "__debug__"}

def unresolved(src: str):
    try:
        top = symtable.symtable(src, "<s>", "exec"); tree = ast.parse(src)
    except (SyntaxError, ValueError):
        return None
    for n in ast.walk(tree):
        if isinstance(n, ast.ImportFrom) and any(a.name == "*" for a in n.names):
            return None
    mod = set()
    for s in top.get_symbols():
        if s.is_assigned() or s.is_imported() or s.is_namespace() or s.is_parameter():
            mod.add(s.get_name())
    def w1(t):
        for s in t.get_symbols():
            if t.get_type() != "module" and s.is_global() and (s.is_assigned() or s.is_imported() or s.is_namespace()):
                mod.add(s.get_name())
        for c in t.get_children(): w1(c)
    w1(top)
    out = set()
    def w2(t):
        for s in t.get_symbols():
            n = s.get_name()
            if not s.is_referenced() or n in mod or n in _BUILTINS: continue
            if t.get_type() == "module" or s.is_global():
                out.add(n)
        for c in t.get_children(): w2(c)
    w2(top)
    return out

class PatchError(ValueError):
    pass

def apply_unified(before: str, diff: str, strict=True):
    b = [x for x in re.split(r"(?<=\n)|(?<=\r)(?!\n)", before) if x]      # lines end at \n, \r\n or \r only (str.splitlines also breaks at form feeds and unicode separators, patch(1) does not)
    d = diff.split("\n")
    if d and d[-1] == "": d = d[:-1]
    i = 0
    while i < len(d) and not d[i].startswith("@@"): i += 1
    out = []; pos = 0; notes = []
    def eq(payload, line):
        return payload == line or payload + "\n" == line or payload == line.rstrip("\n")
    while i < len(d):
        m = re.match(r"@@ -(\d+)(?:,(\d+))? \+(\d+)(?:,(\d+))? @@", d[i])
        if not m: raise PatchError("bad hunk header %r" % d[i])
        s = int(m.group(1)); n = int(m.group(2)) if m.group(2) is not None else 1
        start = s - 1 if n > 0 else s
        if start < pos: raise PatchError("overlapping hunks")
        out.extend(b[pos:start]); pos = start; i += 1
        while i < len(d) and not d[i].startswith("@@"):
            l = d[i]; tag = l[:1]; payload = l[1:]
            if tag == " " or l == "":
                if pos >= len(b):
                    if payload == "" and not strict: notes.append("phantom-context"); i += 1; continue
                    raise PatchError("context beyond EOF %r" % payload)
                if not eq(payload, b[pos]): raise PatchError("context mismatch at %d: %r vs %r" % (pos + 1, payload, b[pos]))
                out.append(b[pos]); pos += 1
            elif tag == "-":
                if pos >= len(b) or not eq(payload, b[pos]): raise PatchError("remove mismatch at %d: %r vs %r" % (pos + 1, payload, b[pos] if pos < len(b) else None))
                pos += 1
            elif tag == "+":
                out.append(payload + "\n")
            elif tag == "\\":
                pass
            else:
                raise PatchError("bad diff line %r" % l)
            i += 1
    out.extend(b[pos:])
    # "up to the presence of a final newline": an unterminated original last line that is kept
    # and followed by further output is treated as terminated
    for k in range(len(out) - 1):
        if not out[k].endswith(("\n", "\r")): out[k] += "\n"
    return "".join(out), notes

def strip_final_newline(s: str):
    if s.endswith("\r\n"): return s[:-2]
    if s.endswith(("\n", "\r")): return s[:-1]
    return s

def same_mod_final_newline(a: str, b: str):
    """equal up to the presence of a final newline: equal after removing at most one trailing line terminator from either side"""
    return bool({a, strip_final_newline(a)} & {b, strip_final_newline(b)})

def tokens(src: str):
    t = ast.parse(src); c = collections.Counter()
    for n in ast.walk(t):
        if isinstance(n, ast.Name): c[("name", n.id)] += 1
        elif isinstance(n, ast.Attribute): c[("attr", n.attr)] += 1
        elif isinstance(n, ast.keyword): c[("kw", n.arg if n.arg is not None else "**")] += 1     # f(**kw): the unpacking marker is a token too
        elif isinstance(n, ast.Starred): c[("unpack", "*")] += 1
        elif isinstance(n, ast.Constant): c[("const", repr(n.value))] += 1
        elif isinstance(n, ast.alias): c[("import", n.name + (" as " + n.asname if n.asname else ""))] += 1
        elif isinstance(n, ast.ImportFrom): c[("from", n.module or "")] += 1
        elif isinstance(n, (ast.FunctionDef, ast.ClassDef, ast.AsyncFunctionDef)): c[("def", n.name)] += 1
        elif isinstance(n, ast.arg): c[("arg", n.arg)] += 1
    return c
