"""Runner: plan -> pool -> judge -> classify -> known-findings -> replay files -> evidence -> exit code.

Verdicts are three-valued:
  violated      exit 1, one `VIOLATION property=<id> replay=<path>` line per distinct mechanism key not listed as known
  held          exit 0 (KNOWN-FINDING lines for listed keys)
  inconclusive  exit 2, `INCONCLUSIVE property=<id> reason=...` (deciding monitor never reached / too few decisive cases)
A check can never turn a timeout into a verdict: timed-out or crashed jobs are counted as inconclusive cases.
"""
import collections, json, os, re, sys, time

HERE = os.path.dirname(os.path.dirname(os.path.abspath(__file__)))
VERIF = os.environ.get("VF_OUT_DIR") or os.environ.get("VF_VERIF_DIR") or HERE   # where evidence/ and replays are written (self-validation runs point it elsewhere)
KNOWN_FILE = os.path.join(HERE, "KNOWN_FINDINGS.txt")


class Violation:
    """key = mechanism key (generator labels + witness structure only); witness = JSON-able dict; jobs = what replays it"""
    def __init__(self, prop, key, what, witness, jobs=None):
        self.prop, self.key, self.what, self.witness, self.jobs = prop, key, what, witness, jobs


def load_known():
    known, fixed = {}, []
    if os.path.exists(KNOWN_FILE):
        for line in open(KNOWN_FILE, encoding="utf-8"):
            line = line.strip()
            m = re.match(r"known:\s+property=(\S+)\s+key=(\S+)\s*(.*)", line)
            if m: known[(m.group(1), m.group(2))] = m.group(3)
            elif line.startswith("fixed:"): fixed.append(line)
    return known, fixed


def tier_seed():
    tier = None
    if "--tier" in sys.argv: tier = sys.argv[sys.argv.index("--tier") + 1]
    tier = tier or os.environ.get("VERIF_TIER") or "quick"
    if tier not in ("quick", "thorough"): tier = "quick"
    try: seed = int(os.environ.get("VERIF_SEED", "0"))
    except ValueError: seed = 0
    return tier, seed


def budget_scale(default=1.0):
    """VERIF_BUDGET_S scales random sample sizes of the thorough tier (fraction of the default 900 s)"""
    try: return max(0.1, float(os.environ["VERIF_BUDGET_S"]) / 900.0)
    except (KeyError, ValueError): return default


def _safe(s):
    return re.sub(r"[^A-Za-z0-9_.-]+", "_", s)[:100]


def finish(prop, level, tier, seed, t0, *, evaluations, nontrivial, violations, rule, min_nontrivial, stats=None, samples=None, counters=None,
           deciding_counters=(), inconclusive_cases=0, assumptions=(), extra=None, required=None, module=None):
    """Common tail of every check. `nontrivial` is a set of hashable case identities in which the deciding event occurred.
    `required` maps a class name -> count observed; a zero makes the run inconclusive."""
    known, _ = load_known()
    counters = dict(counters or {}); stats = dict(stats or {})
    by_key = collections.defaultdict(list)
    for v in violations: by_key[v.key].append(v)
    rdir = os.path.join(VERIF, "evidence", "replays", prop)
    os.makedirs(rdir, exist_ok=True)
    for f in os.listdir(rdir):  # replays of this property are rewritten on every run
        try: os.unlink(os.path.join(rdir, f))
        except OSError: pass
    new = 0; known_hits = {}; new_keys = []
    for key, vs in sorted(by_key.items()):
        if (prop, key) in known:
            print(f"KNOWN-FINDING: property={prop} {key} {known[(prop, key)]} ({len(vs)} instance{'s' if len(vs) != 1 else ''} this run)")
            known_hits[key] = len(vs)
            continue
        new += 1; new_keys.append(key)
        rp = os.path.join(rdir, _safe(key) + ".json")
        v0 = vs[0]
        with open(rp, "w", encoding="utf-8") as fh:
            json.dump({"property": prop, "key": key, "what": v0.what, "instances": len(vs), "tier": tier, "seed": seed, "module": module,
                       "replay_cmd": f"/venv/bin/python -m vf.replay {os.path.relpath(rp, VERIF)}", "witness": v0.witness, "jobs": v0.jobs,
                       "other_instances": [x.what for x in vs[1:6]]}, fh, indent=1, default=str)
        print(f"VIOLATION property={prop} replay={rp}")
        print(f"  key={key} instances={len(vs)} what={v0.what[:300]}")
    missing = [c for c in deciding_counters if counters.get(c, 0) == 0]
    missing_cls = [k for k, n in (required or {}).items() if not n]
    reason = None
    if missing: reason = "no evaluations of deciding monitor " + ",".join(missing)
    elif missing_cls: reason = "required class never observed: " + ",".join(missing_cls)
    elif any("oracle_error" in k and n for k, n in stats.items()): reason = "an oracle raised: " + ",".join(k for k in stats if "oracle_error" in k)[:300]
    elif len(nontrivial) < min_nontrivial: reason = f"only {len(nontrivial)} non-trivial cases (floor {min_nontrivial})"
    verdict = "violated" if new else ("inconclusive" if reason else "held")
    fired = sorted(k[6:] for k in stats if k.startswith("fired:"))
    cov = {"evaluations": int(evaluations), "distinct_nontrivial": len(nontrivial), "rule": rule,
           "samples": list(samples or [])[:5] or [{"note": "no non-trivial case was produced"}],
           "monitor_evaluations": counters, "stats": {k: v for k, v in stats.items() if not k.startswith("fired:")},
           "codemods_fired": {k[6:]: stats[k] for k in stats if k.startswith("fired:")}, "n_codemods_fired": len(fired),
           "inconclusive_cases": inconclusive_cases, "known_finding_hits": known_hits, "new_violation_keys": new_keys, "verdict": verdict}
    if required: cov["required_classes_observed"] = dict(required)
    if reason: cov["inconclusive_reason"] = reason
    if extra: cov.update(extra)
    ev = {"property_id": prop, "tier": tier, "seed": seed, "level": level, "wall_s": round(time.time() - t0, 2), "violations": new, "coverage": cov,
          "assumptions": list(assumptions) or ["oracles use the standard library only (ast, symtable, compile, difflib, expat, tomllib, configparser) plus packaging/jsonschema",
                                                "seed programs harvested from the inputs (never the expected outputs) of tests/codemods"]}
    os.makedirs(os.path.join(VERIF, "evidence"), exist_ok=True)
    with open(os.path.join(VERIF, "evidence", f"{prop}.json"), "w", encoding="utf-8") as fh:
        json.dump(ev, fh, indent=1, default=str)
    print(f"{prop} {tier} seed={seed}: {verdict}; evaluations={evaluations} nontrivial={len(nontrivial)} inconclusive_cases={inconclusive_cases} known_keys_hit={len(known_hits)} wall={ev['wall_s']}s")
    if verdict == "inconclusive": print(f"INCONCLUSIVE property={prop} reason={reason}")
    return {"violated": 1, "held": 0, "inconclusive": 2}[verdict]


def _group_of(job):
    for k in ("pair", "group"):
        if job.get(k) is not None: return (k, str(job[k]))
    return None


def run_jobs(jobs, timeout=600, progress=None):
    """run jobs on the worker pool, longest first; returns results aligned with jobs"""
    from vf.pool import Pool
    pool = Pool()
    try:
        order = sorted(range(len(jobs)), key=lambda i: -(len(jobs[i].get("files", {})) * max(1, len(jobs[i].get("steps") or [1]) * jobs[i].get("repeat", 1))))
        res = pool.map([jobs[i] for i in order], timeout=timeout, progress=progress)
    finally:
        pool.close()
    out = [None] * len(jobs)
    for i, r in zip(order, res): out[i] = r
    return out


def changed_original_lines(before: str, after: str):
    import difflib
    A = before.splitlines(); B = after.splitlines(); out = []
    for tag, i1, i2, j1, j2 in difflib.SequenceMatcher(None, A, B, autojunk=False).get_opcodes():
        if tag in ("replace", "delete"): out += list(range(i1 + 1, i2 + 1))
    return out

def line_filter_followups(job, r, rnd, per_job=2):
    """second-wave jobs: the same single-file project with ONE of the lines the first run rewrote excluded (`--path-exclude code.py:N`).
    A partially applied rewrite (one site skipped, its siblings done) must still satisfy the property."""
    import base64
    if list(job.get("files") or {}) != ["code.py"] or r.get("status") != "ok": return []
    run = r["runs"][0]
    if run["rc"] != 0 or run["exc"] or not run["tree"].get("code.py", "").startswith("F:"): return []
    try:
        before = base64.b64decode(job["files"]["code.py"]).decode("utf-8"); after = base64.b64decode(run["tree"]["code.py"][2:]).decode("utf-8")
    except UnicodeDecodeError: return []
    lines = changed_original_lines(before, after)
    if len(lines) < 2: return []          # a single rewritten line: excluding it just disables the codemod
    out = []
    for n in rnd.sample(lines, min(per_job, len(lines))):
        j = {k: v for k, v in job.items() if not k.startswith("_")}
        j["id"] = f"{job['id']}|exclude-line-{n}"; j["argv"] = list(job["argv"]) + ["--path-exclude", f"code.py:{n}"]; j["repeat"] = 1; j["excluded_line"] = n
        j["labels"] = {k: tuple(v) + ("line-excluded",) for k, v in (job.get("labels") or {}).items()}
        out.append(j)
    return out

def run_check(prop, level, plan, judge, rule, min_nontrivial, deciding_counters=(), timeout=600, describe=None, assumptions=(), finalize=None, module=None, required=None, followup=None, followup_cap=300):
    tier, seed = tier_seed()
    t0 = time.time()
    jobs = plan(tier, seed)
    res = run_jobs(jobs, timeout=timeout)
    groups = collections.defaultdict(list)
    for j in jobs:
        g = _group_of(j)
        if g: groups[g].append(j)
    viols = []; stats = collections.Counter(); samples = []; nontrivial = set(); evals = 0; inconcl = 0; counters = collections.Counter()
    for job, r in zip(jobs, res):
        if r is None or r.get("status") != "ok":
            inconcl += 1; stats["inconclusive:" + str((r or {}).get("status"))] += 1
            if (r or {}).get("status") == "harness_error": stats["harness_error_sample"] = (r.get("error") or "")[-300:]
            continue
        for run in r["runs"]:
            evals += 1
            for k, v in (run.get("counters") or {}).items(): counters[k] += v
        v, s, nt = judge(job, r)
        for x in v:
            if x.jobs is None:
                g = _group_of(job)
                x.jobs = [strip_job(j) for j in (groups[g] if g and len(groups[g]) <= 4 else [job])]
        viols += v; stats.update(s)
        for x in nt: nontrivial.add(x if isinstance(x, (str, int)) else tuple(x))
        if len(samples) < 4 and nt:
            samples.append(describe(job, r) if describe else default_describe(job, r))
    if followup:
        import random as _random
        rnd = _random.Random(f"{prop}:followup:{seed}")
        more = [j2 for job, r in zip(jobs, res) if r is not None for j2 in followup(job, r, rnd)]
        if len(more) > followup_cap:
            # stratified: round-robin over codemods, several-site files ("twice" context) first, so every codemod gets partially-applied runs
            by_c = {}
            rnd.shuffle(more)
            for j2 in more: by_c.setdefault(j2.get("cid") or "?", []).append(j2)
            for q in by_c.values(): q.sort(key=lambda j2: min([{"twice-defs": 0, "twice": 1}.get(str(l[0]), 2) for l in (j2.get("labels") or {}).values() if l] or [2]))
            picked = []
            while len(picked) < followup_cap and any(by_c.values()):
                for c in sorted(by_c):
                    if by_c[c] and len(picked) < followup_cap: picked.append(by_c[c].pop(0))
            more = picked
        res2 = run_jobs(more, timeout=timeout) if more else []
        stats["followup_jobs"] = len(more)
        for job, r in zip(more, res2):
            if r is None or r.get("status") != "ok": inconcl += 1; continue
            for run in r["runs"]:
                evals += 1
                for k, v_ in (run.get("counters") or {}).items(): counters[k] += v_
            v, s_, nt = judge(job, r)
            for x in v:
                if x.jobs is None: x.jobs = [strip_job(job)]
            viols += v; stats.update(s_)
            for x in nt: nontrivial.add(x if isinstance(x, (str, int)) else tuple(x))
    extra = None; req = None
    if finalize:
        fin = finalize(stats, counters)
        if fin:
            v2, extra, req = fin
            viols += v2 or []
    if required and req is None: req = required(stats, counters)
    return finish(prop, level, tier, seed, t0, evaluations=evals, nontrivial=nontrivial, violations=viols, rule=rule, min_nontrivial=min_nontrivial, stats=stats, samples=samples,
                  counters=counters, deciding_counters=deciding_counters, inconclusive_cases=inconcl, assumptions=assumptions, extra=extra, required=req, module=module)


def strip_job(job):
    return {k: v for k, v in job.items() if not k.startswith("_")}


def default_describe(job, r):
    import base64
    files = {}
    for name, spec in list((job.get("files") or {}).items())[:2]:
        if isinstance(spec, str):
            try: files[name] = base64.b64decode(spec).decode("utf-8", "replace")[:600]
            except Exception: files[name] = "<binary>"
        else: files[name] = spec
    run = r["runs"][0]
    ev = collections.Counter(e["k"] for e in (run.get("trace") or []))
    return {"id": job.get("id"), "argv": job.get("argv") or job.get("steps"), "files": files, "n_files": len(job.get("files") or {}), "rc": run.get("rc"),
            "trace_events": dict(ev), "changesets": [cs["path"] for rr in ((run.get("report") or {}).get("results") or []) for cs in rr.get("changeset", [])][:5]}
